//! C18 – the health service reports the latest status to Check and Watch.
//!
//! Two families:
//! * `Hist`: model-based histories (<= 30 ops) over services {"", "a", "b"} driven through the generated
//!   `HealthClient` in-process against `health_reporter()`'s server on a paused `current_thread` runtime
//!   (seeded); every operation is placed at a quiescent point. Watchers are either *pull* driven (the
//!   response body is only polled when the history drains the watcher) or *eager* (a pump task forwards
//!   every message as soon as it is available, like hyper would over a connection).
//! * `Stress`: multi-threaded runtime, concurrent writers and watchers, invariant oracle only.
//!
//! The oracle is a reference model (service -> generations -> values set); it shares nothing with tonic.
use crate::infra::driver::noop_waker;
use crate::infra::gen::pick;
use crate::infra::runner::*;
use crate::{bail, ensure};
use proptest::prelude::*;
use serde::{Deserialize, Serialize};
use std::pin::Pin;
use std::sync::Arc;
use std::task::{Context, Poll};
use std::time::Duration;
use tokio::sync::mpsc;
use tokio_stream::Stream;
use tonic::codec::Streaming;
use tonic::server::NamedService;
use tonic_health::pb::health_client::HealthClient;
use tonic_health::pb::health_server::{Health, HealthServer};
use tonic_health::pb::{HealthCheckRequest, HealthCheckResponse};
use tonic_health::server::{health_reporter, HealthReporter};
use tonic_health::ServingStatus;
use tower::util::BoxCloneService;

/// "" (the server as a whole), a well-formed name (the health service's own: nothing is registered for it unless set), and a free-form one (health service names are arbitrary strings)
pub const NAMES: [&str; 3] = [
    "",
    "grpc.health.v1.Health",
    // free-form and long (300 bytes): a name is a string, not an identifier, and no short one
    "1st/pay-ments..v2 \u{e9} 0123456789012345678901234567890123456789012345678901234567890123456789012345678901234567890123456789012345678901234567890123456789012345678901234567890123456789012345678901234567890123456789012345678901234567890123456789012345678901234567890123456789012345678901234567890123456789",
];
pub const MAX_OPS: usize = 30;
pub const MAX_WATCHERS: usize = 4;
pub const STRESS_REPS: u64 = 12;

// ------------------------------------------------------------------------------------------- case

#[derive(Clone, Debug, Serialize, Deserialize, PartialEq)]
pub enum Op {
    /// service, status (0 UNKNOWN, 1 SERVING, 2 NOT_SERVING), via (0 `set_service_status(&str)`,
    /// 1 `set_serving::<S>` / `set_not_serving::<S>` when the status allows, 2 a cloned reporter with `String`)
    Set(u8, u8, u8),
    Clear(u8),
    Check(u8),
    /// service, eager (pump task) or pull-driven
    Watch(u8, bool),
    /// drain the (sel mod live)-th live watcher until it is pending
    Next(u8),
    Drop(u8),
}

/// one writer step: set(svc, st), optionally Check(svc) right after, then `yields` x yield_now; serialised as a 4-tuple
#[derive(Clone, Debug, Serialize, Deserialize)]
#[serde(from = "(u8, u8, u8, bool)", into = "(u8, u8, u8, bool)")]
pub struct WOp {
    pub svc: u8,
    pub st: u8,
    pub yields: u8,
    pub check: bool,
}

impl From<(u8, u8, u8, bool)> for WOp {
    fn from(t: (u8, u8, u8, bool)) -> Self {
        WOp { svc: t.0, st: t.1, yields: t.2, check: t.3 }
    }
}
impl From<WOp> for (u8, u8, u8, bool) {
    fn from(w: WOp) -> Self {
        (w.svc, w.st, w.yields, w.check)
    }
}

#[derive(Clone, Debug, Serialize, Deserialize)]
pub enum Case {
    Hist {
        seed: u64,
        ops: Vec<Op>,
    },
    Stress {
        seed: u64,
        workers: u8,
        /// status set before the concurrent phase for "", "a", "b" (None = "" keeps its default, "a"/"b" start unregistered)
        init: (Option<u8>, Option<u8>, Option<u8>),
        writers: Vec<Vec<WOp>>,
        /// (service, yields before subscribing)
        watchers: Vec<(u8, u8)>,
    },
}

// -------------------------------------------------------------------------------------- generator

fn svc() -> impl Strategy<Value = u8> {
    prop_oneof![2 => Just(0u8), 3 => Just(1u8), 2 => Just(2u8)]
}
fn via() -> impl Strategy<Value = u8> {
    prop_oneof![3 => Just(0u8), 2 => Just(1u8), 1 => Just(2u8)]
}
fn set_op() -> impl Strategy<Value = Op> {
    (svc(), 0u8..3, via()).prop_map(|(s, v, via)| Op::Set(s, v, via))
}
fn op() -> BoxedStrategy<Op> {
    prop_oneof![
        6 => set_op(),
        2 => svc().prop_map(Op::Clear),
        3 => svc().prop_map(Op::Check),
        3 => (svc(), any::<bool>()).prop_map(|(s, e)| Op::Watch(s, e)),
        4 => (0u8..4).prop_map(Op::Next),
        1 => (0u8..4).prop_map(Op::Drop),
    ]
    .boxed()
}

/// Inserts the skeleton ops (in order) at generated positions of the random op list.
fn weave(skel: Vec<Op>, rnd: Vec<Op>, cuts: &[u16]) -> Vec<Op> {
    let mut pos: Vec<usize> = (0..skel.len()).map(|i| pick(cuts[i % cuts.len()], rnd.len() + 1)).collect();
    pos.sort();
    let mut out = Vec::with_capacity(skel.len() + rnd.len());
    let mut k = 0;
    for j in 0..=rnd.len() {
        while k < skel.len() && pos[k] == j {
            out.push(skel[k].clone());
            k += 1;
        }
        if j < rnd.len() {
            out.push(rnd[j].clone());
        }
    }
    out.truncate(MAX_OPS);
    out
}

/// clear -> set on a watched service, with an optional drain in between
fn skel_clear_set() -> BoxedStrategy<Vec<Op>> {
    (svc(), any::<bool>(), 0u8..3, 0u8..3, via(), any::<[bool; 3]>())
        .prop_map(|(s, eager, x, y, via, f)| {
            let mut v = vec![];
            if s != 0 || f[0] {
                v.push(Op::Set(s, x, 0));
            }
            v.push(Op::Watch(s, eager));
            if f[1] {
                v.push(Op::Next(3));
            }
            v.push(Op::Clear(s));
            if f[2] {
                v.push(Op::Next(3));
            }
            v.push(Op::Set(s, y, via));
            v.push(Op::Next(3));
            v.push(Op::Check(s));
            v
        })
        .boxed()
}

/// two watchers of one service (one of each kind half of the time), updates, drains
fn skel_multi_watch() -> BoxedStrategy<Vec<Op>> {
    (svc(), any::<[bool; 2]>(), proptest::collection::vec((0u8..3, via()), 1..4), any::<bool>())
        .prop_map(|(s, e, sets, pre)| {
            let mut v = vec![];
            if s != 0 || pre {
                v.push(Op::Set(s, sets[0].0, 0));
            }
            v.push(Op::Watch(s, e[0]));
            v.push(Op::Watch(s, e[1]));
            for (x, via) in &sets {
                v.push(Op::Set(s, *x, *via));
            }
            v.push(Op::Next(0));
            v.push(Op::Next(1));
            v
        })
        .boxed()
}

fn hist() -> BoxedStrategy<Case> {
    let free = (any::<u64>(), proptest::collection::vec(op(), 0..=MAX_OPS)).prop_map(|(seed, ops)| Case::Hist { seed, ops });
    let woven = |sk: BoxedStrategy<Vec<Op>>| {
        (any::<u64>(), sk, proptest::collection::vec(op(), 0..=21), any::<[u16; 9]>())
            .prop_map(|(seed, sk, rnd, cuts)| Case::Hist { seed, ops: weave(sk, rnd, &cuts) })
    };
    prop_oneof![
        3 => free,
        3 => woven(skel_clear_set()),
        2 => woven(skel_multi_watch()),
    ]
    .boxed()
}

fn stress() -> BoxedStrategy<Case> {
    (2usize..=4, 2usize..=4, any::<bool>())
        .prop_flat_map(|(nw, nwatch, partitioned)| {
            let wop = (svc(), 0u8..3, prop_oneof![3 => Just(0u8), 2 => Just(1u8), 1 => 2u8..4], proptest::bool::weighted(0.3))
                .prop_map(|(svc, st, yields, check)| WOp { svc, st, yields, check });
            (
                any::<u64>(),
                2u8..=4,
                (proptest::option::of(0u8..3), proptest::option::weighted(0.7, 0u8..3), proptest::option::weighted(0.7, 0u8..3)),
                proptest::collection::vec(proptest::collection::vec(wop, 0..=12), nw),
                proptest::collection::vec((svc(), 0u8..4), nwatch),
            )
                .prop_map(move |(seed, workers, init, mut writers, watchers)| {
                    if partitioned {
                        for (i, w) in writers.iter_mut().enumerate() {
                            for op in w.iter_mut() {
                                op.svc = (i % 3) as u8;
                            }
                        }
                    }
                    Case::Stress { seed, workers, init, writers, watchers }
                })
        })
        .boxed()
}

pub fn strategy() -> BoxedStrategy<Case> {
    prop_oneof![31 => hist(), 1 => stress()].boxed()
}

// ------------------------------------------------------------------------------------ tonic side

struct SvcE;
struct SvcA;
struct SvcB;
impl NamedService for SvcE {
    const NAME: &'static str = "";
}
impl NamedService for SvcA {
    const NAME: &'static str = NAMES[1];
}
impl NamedService for SvcB {
    const NAME: &'static str = NAMES[2];
}

type Svc = BoxCloneService<http::Request<tonic::body::Body>, http::Response<tonic::body::Body>, std::convert::Infallible>;
type Client = HealthClient<Svc>;

fn mk_client(server: HealthServer<impl Health>) -> Client {
    HealthClient::new(BoxCloneService::new(server))
}

fn st(v: u8) -> ServingStatus {
    match v {
        0 => ServingStatus::Unknown,
        1 => ServingStatus::Serving,
        _ => ServingStatus::NotServing,
    }
}

/// health.proto: UNKNOWN = 0, SERVING = 1, NOT_SERVING = 2, SERVICE_UNKNOWN = 3
fn wire_name(v: i32) -> &'static str {
    match v {
        0 => "UNKNOWN",
        1 => "SERVING",
        2 => "NOT_SERVING",
        3 => "SERVICE_UNKNOWN",
        _ => "<undefined enum value>",
    }
}

fn req(s: usize) -> HealthCheckRequest {
    HealthCheckRequest { service: NAMES[s].to_string() }
}

async fn apply_set(r: &HealthReporter, r2: &HealthReporter, s: usize, v: u8, via: u8) -> bool {
    match (via % 3, v) {
        (1, 1) => {
            match s {
                0 => r.set_serving::<SvcE>().await,
                1 => r.set_serving::<SvcA>().await,
                _ => r.set_serving::<SvcB>().await,
            }
            true
        }
        (1, 2) => {
            match s {
                0 => r.set_not_serving::<SvcE>().await,
                1 => r.set_not_serving::<SvcA>().await,
                _ => r.set_not_serving::<SvcB>().await,
            }
            true
        }
        (2, _) => {
            r2.set_service_status(String::from(NAMES[s]), st(v)).await;
            false
        }
        _ => {
            r.set_service_status(NAMES[s], st(v)).await;
            false
        }
    }
}

/// Check through the generated client: Ok(wire status) or Err(grpc code)
async fn do_check(client: &mut Client, s: usize) -> Result<i32, tonic::Status> {
    client.check(req(s)).await.map(|r| r.into_inner().status)
}

fn judge_check(got: &Result<i32, tonic::Status>, want: Option<u8>, s: usize, at: &str) -> Result<(), Failure> {
    match (got, want) {
        (Ok(g), Some(w)) => ensure!(
            *g == w as i32,
            "C18/check-latest",
            "{at}: Check({:?}) = {} but the most recently set status is {}",
            NAMES[s],
            wire_name(*g),
            wire_name(w as i32)
        ),
        (Ok(g), None) => bail!(
            "C18/check-not-found",
            "{at}: Check({:?}) = {} but the service was never set or has been cleared (expected NOT_FOUND)",
            NAMES[s],
            wire_name(*g)
        ),
        (Err(e), None) => ensure!(
            e.code() == tonic::Code::NotFound,
            "C18/check-not-found",
            "{at}: Check({:?}) of an unregistered service failed with {:?}, expected NOT_FOUND",
            NAMES[s],
            e.code()
        ),
        (Err(e), Some(w)) => bail!(
            "C18/check-latest",
            "{at}: Check({:?}) failed with {:?} ({}) but the service is registered with {}{}",
            NAMES[s],
            e.code(),
            e.message(),
            wire_name(w as i32),
            if s == 0 { " (the empty name is SERVING by default)" } else { "" }
        ),
    }
    Ok(())
}

// ------------------------------------------------------------------------------- reference model

struct Model {
    /// per service: generations; each generation = values set in it (first = the registering set)
    gens: [Vec<Vec<u8>>; 3],
    live: [bool; 3],
}
impl Model {
    fn new() -> Self {
        Model { gens: [vec![vec![1]], vec![], vec![]], live: [true, false, false] }
    }
    fn set(&mut self, s: usize, v: u8) {
        if self.live[s] {
            self.gens[s].last_mut().unwrap().push(v);
        } else {
            self.gens[s].push(vec![v]);
            self.live[s] = true;
        }
    }
    fn clear(&mut self, s: usize) {
        self.live[s] = false;
    }
    fn cur(&self, s: usize) -> Option<u8> {
        if self.live[s] {
            self.gens[s].last().and_then(|g| g.last().copied())
        } else {
            None
        }
    }
}

enum Ev {
    Item(i32),
    End,
    Err(String),
}
enum Src {
    Pull(Streaming<HealthCheckResponse>),
    Eager(mpsc::UnboundedReceiver<Ev>, tokio::task::JoinHandle<()>),
}
struct Watcher {
    id: usize,
    svc: usize,
    gen: usize,
    /// index (in the generation's value list) of the status current at subscription
    start: usize,
    /// everything before `ptr` is already matched by the items seen (greedy subsequence match)
    ptr: usize,
    last: Option<i32>,
    drained: bool,
    ended: bool,
    src: Src,
}
impl Drop for Watcher {
    fn drop(&mut self) {
        if let Src::Eager(_, h) = &self.src {
            h.abort();
        }
    }
}

async fn quiesce() {
    tokio::time::sleep(Duration::from_millis(1)).await;
}

/// Drains a watcher at a quiescent point: all items available now, and whether the stream ended.
async fn drain(w: &mut Watcher) -> Result<(Vec<i32>, bool), Failure> {
    let mut items = vec![];
    let mut end = false;
    match &mut w.src {
        Src::Pull(s) => {
            loop {
                ensure!(
                    items.len() <= 2 * MAX_OPS + 4,
                    "C18/stream-flood",
                    "watcher #{} yielded more than {} items in one drain with no update in between",
                    w.id,
                    2 * MAX_OPS + 4
                );
                match tokio::time::timeout(Duration::from_millis(1), s.message()).await {
                    Err(_) => break,
                    Ok(Ok(Some(m))) => items.push(m.status),
                    Ok(Ok(None)) => {
                        end = true;
                        break;
                    }
                    Ok(Err(e)) => bail!(
                        "C18/watch-stream-error",
                        "watcher #{} of {:?}: stream yielded an error {:?} ({})",
                        w.id,
                        NAMES[w.svc],
                        e.code(),
                        e.message()
                    ),
                }
            }
        }
        Src::Eager(rx, _) => {
            quiesce().await;
            while let Ok(ev) = rx.try_recv() {
                match ev {
                    Ev::Item(v) => {
                        ensure!(!end, "C18/item-after-end", "watcher #{}: item after the end of the stream", w.id);
                        items.push(v)
                    }
                    Ev::End => end = true,
                    Ev::Err(e) => bail!("C18/watch-stream-error", "watcher #{} of {:?}: stream yielded an error {e}", w.id, NAMES[w.svc]),
                }
            }
        }
    }
    Ok((items, end))
}

struct DrainFacts {
    coalesced: bool,
    first_after_set: bool,
    first_after_clear: bool,
}

fn judge_drain(w: &mut Watcher, m: &Model, items: &[i32], end_now: bool, at: &str) -> Result<DrainFacts, Failure> {
    let a = &m.gens[w.svc][w.gen];
    let live = m.live[w.svc] && m.gens[w.svc].len() - 1 == w.gen;
    let name = NAMES[w.svc];
    let first = !w.drained;
    let allowed = |a: &[u8], from: usize| a[from..].iter().map(|v| wire_name(*v as i32)).collect::<Vec<_>>().join(",");
    let got = items.iter().map(|v| wire_name(*v)).collect::<Vec<_>>().join(",");
    let unseen_before = a.len() - w.ptr;
    if first && a.len() == w.start + 1 {
        ensure!(
            items.first() == Some(&(a[w.start] as i32)),
            "C18/first-item",
            "{at}: watcher #{} of {name:?} (no update between subscription and first drain) first reported [{got}]; status at subscription was {}",
            w.id,
            wire_name(a[w.start] as i32)
        );
    }
    for it in items {
        ensure!(!w.ended, "C18/item-after-end", "{at}: watcher #{} of {name:?} reported {} after its stream had ended", w.id, wire_name(*it));
        match a[w.ptr..].iter().position(|v| *v as i32 == *it) {
            Some(k) => w.ptr += k + 1,
            None => {
                if a[w.start..].iter().any(|v| *v as i32 == *it) {
                    bail!(
                        "C18/not-a-subsequence",
                        "{at}: watcher #{} of {name:?} reported [{got}]; {} is not among the values set since its previous report [{}] (values since subscription: [{}])",
                        w.id,
                        wire_name(*it),
                        allowed(a, w.ptr),
                        allowed(a, w.start)
                    )
                } else {
                    bail!(
                        "C18/reported-unset-status",
                        "{at}: watcher #{} of {name:?} reported {} which was never set for that registration (values since subscription: [{}])",
                        w.id,
                        wire_name(*it),
                        allowed(a, w.start)
                    )
                }
            }
        }
        w.last = Some(*it);
    }
    w.drained = true;
    if end_now {
        w.ended = true;
    }
    let latest = *a.last().unwrap() as i32;
    if live {
        ensure!(
            !w.ended,
            "C18/ended-while-registered",
            "{at}: watcher #{} of {name:?}: stream ended although the service is still registered (never cleared since subscription)",
            w.id
        );
        ensure!(
            w.last == Some(latest),
            "C18/latest-not-reported",
            "{at}: watcher #{} of {name:?} drained at a quiescent point: last reported {:?}, latest status is {} (this drain: [{got}])",
            w.id,
            w.last.map(wire_name),
            wire_name(latest)
        );
    } else {
        ensure!(
            w.ended,
            "C18/not-ended-after-clear",
            "{at}: watcher #{} of {name:?}: the service was cleared but the stream is still open after a drain (this drain: [{got}])",
            w.id
        );
        ensure!(
            w.last == Some(latest),
            "C18/clear-lost-status",
            "{at}: watcher #{} of {name:?}: stream ended after clear with last report {:?}; the last status before the clear was {}",
            w.id,
            w.last.map(wire_name),
            wire_name(latest)
        );
    }
    Ok(DrainFacts {
        coalesced: unseen_before >= 2 && items.len() < unseen_before,
        first_after_set: first && a.len() > w.start + 1,
        first_after_clear: first && !live,
    })
}

async fn run_hist_async(ops: &[Op], o: &mut Outcome) -> Result<(), Failure> {
    let (mut reporter, server) = health_reporter();
    let mut client = mk_client(server);
    let mut reporter2 = reporter.clone();
    let mut m = Model::new();
    let mut ws: Vec<Watcher> = vec![];
    let mut next_id = 0usize;
    let mut touched0 = false;
    o.label_if(ops.is_empty(), "len=0");
    o.label_if(ops.len() >= 20, "len>=20");
    for (i, op) in ops.iter().take(MAX_OPS).enumerate() {
        let at = format!("op {i} {op:?}");
        match op {
            Op::Set(s, v, via) => {
                let s = *s as usize % 3;
                let v = *v % 3;
                if !m.live[s] && !m.gens[s].is_empty() && ws.iter().any(|w| w.svc == s) {
                    o.nontrivial = true;
                    o.label("clear_then_set_watched");
                }
                o.label_if(m.cur(s) == Some(v), "set_same_value");
                o.label_if(!m.live[s], "set_registers");
                let typed = apply_set(&reporter, &reporter2, s, v, *via).await;
                o.label_if(typed, "typed_set");
                m.set(s, v);
                touched0 |= s == 0;
            }
            Op::Clear(s) => {
                let s = *s as usize % 3;
                o.label_if(m.live[s] && ws.iter().any(|w| w.svc == s && !w.ended), "clear_watched");
                o.label_if(!m.live[s], "clear_unregistered");
                if i % 2 == 0 {
                    reporter.clear_service_status(NAMES[s]).await;
                } else {
                    reporter2.clear_service_status(NAMES[s]).await;
                }
                m.clear(s);
                touched0 |= s == 0;
            }
            Op::Check(s) => {
                let s = *s as usize % 3;
                let got = do_check(&mut client, s).await;
                o.label_if(m.cur(s).is_none(), "check_not_found");
                o.label_if(s == 0 && !touched0, "empty_name_default");
                judge_check(&got, m.cur(s), s, &at)?;
            }
            Op::Watch(s, eager) => {
                let s = *s as usize % 3;
                if ws.len() >= MAX_WATCHERS {
                    o.label("watch_cap_hit");
                } else {
                    let r = client.watch(req(s)).await;
                    match (r, m.cur(s)) {
                        (Err(e), None) => {
                            o.label("watch_not_found");
                            ensure!(
                                e.code() == tonic::Code::NotFound,
                                "C18/watch-not-found",
                                "{at}: Watch of an unregistered service failed with {:?}, expected NOT_FOUND",
                                e.code()
                            );
                        }
                        (Ok(_), None) => bail!(
                            "C18/watch-not-found",
                            "{at}: Watch({:?}) succeeded but the service was never set or has been cleared (expected NOT_FOUND)",
                            NAMES[s]
                        ),
                        (Err(e), Some(_)) => bail!(
                            "C18/watch-rejected",
                            "{at}: Watch({:?}) of a registered service failed with {:?} ({})",
                            NAMES[s],
                            e.code(),
                            e.message()
                        ),
                        (Ok(resp), Some(_)) => {
                            let stream = resp.into_inner();
                            let src = if *eager {
                                o.label("eager_watcher");
                                let (tx, rx) = mpsc::unbounded_channel();
                                let mut stream = stream;
                                let h = tokio::spawn(async move {
                                    loop {
                                        match stream.message().await {
                                            Ok(Some(m)) => {
                                                if tx.send(Ev::Item(m.status)).is_err() {
                                                    break;
                                                }
                                            }
                                            Ok(None) => {
                                                let _ = tx.send(Ev::End);
                                                break;
                                            }
                                            Err(e) => {
                                                let _ = tx.send(Ev::Err(format!("{:?} ({})", e.code(), e.message())));
                                                break;
                                            }
                                        }
                                    }
                                });
                                Src::Eager(rx, h)
                            } else {
                                o.label("pull_watcher");
                                Src::Pull(stream)
                            };
                            o.label_if(s == 0 && !touched0, "empty_name_default");
                            let gen = m.gens[s].len() - 1;
                            let start = m.gens[s][gen].len() - 1;
                            ws.push(Watcher { id: next_id, svc: s, gen, start, ptr: start, last: None, drained: false, ended: false, src });
                            next_id += 1;
                            if ws.iter().filter(|w| w.svc == s && !w.ended).count() >= 2 {
                                o.nontrivial = true;
                                o.label("multi_watch");
                            }
                        }
                    }
                }
            }
            Op::Next(sel) => {
                if ws.is_empty() {
                    o.label("next_without_watcher");
                } else {
                    let k = *sel as usize % ws.len();
                    let (items, end) = drain(&mut ws[k]).await?;
                    let f = judge_drain(&mut ws[k], &m, &items, end, &at)?;
                    o.label_if(f.coalesced, "coalesced");
                    o.label_if(f.first_after_set, "first_drain_after_set");
                    o.label_if(f.first_after_clear, "first_drain_after_clear");
                    o.label_if(end, "stream_ended");
                    o.label_if(items.is_empty() && !end, "drain_nothing_new");
                }
            }
            Op::Drop(sel) => {
                if ws.is_empty() {
                    o.label("drop_without_watcher");
                } else {
                    let k = *sel as usize % ws.len();
                    o.label_if(!ws[k].drained, "drop_undrained");
                    o.label("drop_watcher");
                    ws.remove(k);
                }
            }
        }
        quiesce().await;
    }
    // final sweep: every service through Check, every remaining watcher drained
    for s in 0..3 {
        let got = do_check(&mut client, s).await;
        judge_check(&got, m.cur(s), s, "final sweep")?;
    }
    for k in 0..ws.len() {
        let (items, end) = drain(&mut ws[k]).await?;
        let f = judge_drain(&mut ws[k], &m, &items, end, "final sweep")?;
        o.label_if(f.coalesced, "coalesced");
        o.label_if(f.first_after_set, "first_drain_after_set");
        o.label_if(f.first_after_clear, "first_drain_after_clear");
        o.label_if(end, "stream_ended");
    }
    Ok(())
}

fn rng_seed(seed: u64) -> tokio::runtime::RngSeed {
    tokio::runtime::RngSeed::from_bytes(&seed.to_le_bytes())
}

fn run_hist(seed: u64, ops: &[Op], o: &mut Outcome) -> Result<(), Failure> {
    let rt = tokio::runtime::Builder::new_current_thread()
        .enable_time()
        .start_paused(true)
        .rng_seed(rng_seed(seed))
        .build()
        .expect("runtime");
    o.label("history");
    rt.block_on(run_hist_async(ops, o))
}

// ----------------------------------------------------------------------------------------- stress

#[derive(Default, Debug)]
struct WatchReport {
    rejected: Option<(bool, String)>,
    error: Option<String>,
    items: Vec<i32>,
    ended: bool,
}

/// Polls the stream with a no-op waker until it is pending: after all writers have been joined every
/// completed update is visible to a poll, so this is a deterministic "drain what is there".
fn drain_now(stream: &mut Streaming<HealthCheckResponse>, r: &mut WatchReport) {
    let w = noop_waker();
    let mut cx = Context::from_waker(&w);
    for _ in 0..1024 {
        if r.ended {
            break;
        }
        match Pin::new(&mut *stream).poll_next(&mut cx) {
            Poll::Ready(Some(Ok(m))) => r.items.push(m.status),
            Poll::Ready(Some(Err(e))) => {
                r.error = Some(format!("{:?} ({})", e.code(), e.message()));
                r.ended = true;
            }
            Poll::Ready(None) => r.ended = true,
            Poll::Pending => break,
        }
    }
}

async fn watcher_task(
    idx: usize,
    mut client: Client,
    svc: usize,
    yields: u8,
    start: Arc<tokio::sync::Barrier>,
    mut phase: tokio::sync::watch::Receiver<u8>,
    res: mpsc::UnboundedSender<(usize, WatchReport)>,
) -> WatchReport {
    start.wait().await;
    for _ in 0..yields {
        tokio::task::yield_now().await;
    }
    let mut r = WatchReport::default();
    let mut stream = match client.watch(req(svc)).await {
        Ok(resp) => resp.into_inner(),
        Err(e) => {
            r.rejected = Some((e.code() == tonic::Code::NotFound, format!("{:?} ({})", e.code(), e.message())));
            let _ = res.send((idx, WatchReport { rejected: r.rejected.clone(), ..Default::default() }));
            drop(res);
            return r;
        }
    };
    // concurrent phase: report as fast as the stream yields, until the main task says writers are done
    loop {
        tokio::select! {
            biased;
            _ = phase.changed() => break,
            m = stream.message(), if !r.ended => match m {
                Ok(Some(m)) => r.items.push(m.status),
                Ok(None) => r.ended = true,
                Err(e) => { r.error = Some(format!("{:?} ({})", e.code(), e.message())); r.ended = true; }
            },
        }
    }
    drain_now(&mut stream, &mut r);
    let _ = res.send((idx, WatchReport { rejected: None, error: r.error.clone(), items: r.items.clone(), ended: r.ended }));
    drop(res);
    // cleared phase
    let _ = phase.changed().await;
    let mut after = WatchReport { ended: r.ended, ..Default::default() };
    drain_now(&mut stream, &mut after);
    after
}

struct WriterOut {
    /// (op index, service, got) of read-your-writes checks
    checks: Vec<(usize, usize, Result<i32, String>)>,
}

async fn writer_task(reporter: HealthReporter, mut client: Client, script: Vec<WOp>, start: Arc<tokio::sync::Barrier>) -> WriterOut {
    start.wait().await;
    let mut out = WriterOut { checks: vec![] };
    for (i, op) in script.iter().enumerate() {
        let s = op.svc as usize % 3;
        reporter.set_service_status(NAMES[s], st(op.st % 3)).await;
        if op.check {
            let got = do_check(&mut client, s).await.map_err(|e| format!("{:?} ({})", e.code(), e.message()));
            out.checks.push((i, s, got));
        }
        for _ in 0..op.yields {
            tokio::task::yield_now().await;
        }
    }
    out
}

struct StressOut {
    writer_outs: Vec<WriterOut>,
    finals: Vec<Result<i32, tonic::Status>>,
    phase1: Vec<Option<WatchReport>>,
    phase2: Vec<Result<WatchReport, String>>,
    after_clear: Vec<Result<i32, tonic::Status>>,
}

fn run_stress(
    seed: u64,
    workers: u8,
    init: (Option<u8>, Option<u8>, Option<u8>),
    writers: &[Vec<WOp>],
    watchers: &[(u8, u8)],
    o: &mut Outcome,
) -> Result<(), Failure> {
    o.label("stress");
    let workers = (workers as usize).clamp(2, 4);
    let writers: Vec<Vec<WOp>> = writers.iter().take(4).map(|w| w.iter().take(16).cloned().collect()).collect();
    let watchers: Vec<(u8, u8)> = watchers.iter().take(4).cloned().collect();
    let rt = tokio::runtime::Builder::new_multi_thread()
        .worker_threads(workers)
        .enable_time()
        .rng_seed(rng_seed(seed))
        .build()
        .expect("runtime");
    // status before the concurrent phase: "" is SERVING unless set; "a"/"b" may start unregistered
    let init_v: [Option<u8>; 3] = [Some(init.0.map(|v| v % 3).unwrap_or(1)), init.1.map(|v| v % 3), init.2.map(|v| v % 3)];
    let (w2, wt2) = (writers.clone(), watchers.clone());
    let out: StressOut = rt.block_on(async move {
        let (mut reporter, server) = health_reporter();
        let mut client = mk_client(server);
        let inits = [init.0, init.1, init.2];
        for s in 0..3 {
            if let Some(v) = inits[s] {
                reporter.set_service_status(NAMES[s], st(v % 3)).await;
            }
        }
        let start = Arc::new(tokio::sync::Barrier::new(w2.len() + wt2.len()));
        let (phase_tx, phase_rx) = tokio::sync::watch::channel(0u8);
        let (res_tx, mut res_rx) = mpsc::unbounded_channel();
        let mut wh = vec![];
        for (i, (s, y)) in wt2.iter().enumerate() {
            wh.push(tokio::spawn(watcher_task(i, client.clone(), *s as usize % 3, *y, start.clone(), phase_rx.clone(), res_tx.clone())));
        }
        drop(res_tx);
        drop(phase_rx);
        let mut hs = vec![];
        for script in w2.iter() {
            hs.push(tokio::spawn(writer_task(reporter.clone(), client.clone(), script.clone(), start.clone())));
        }
        let mut writer_outs = vec![];
        for h in hs {
            writer_outs.push(h.await.expect("writer task"));
        }
        // all updates have completed
        let mut finals = vec![];
        for s in 0..3 {
            finals.push(do_check(&mut client, s).await);
        }
        let _ = phase_tx.send(1);
        let mut phase1: Vec<Option<WatchReport>> = (0..wt2.len()).map(|_| None).collect();
        for _ in 0..wt2.len() {
            match res_rx.recv().await {
                Some((i, r)) => phase1[i] = Some(r),
                None => break,
            }
        }
        for s in 0..3 {
            reporter.clear_service_status(NAMES[s]).await;
        }
        let _ = phase_tx.send(2);
        let mut phase2 = vec![];
        for h in wh {
            phase2.push(h.await.map_err(|e| format!("{e}")));
        }
        let mut after_clear = vec![];
        for s in 0..3 {
            after_clear.push(do_check(&mut client, s).await);
        }
        StressOut { writer_outs, finals, phase1, phase2, after_clear }
    });
    drop(rt);

    // ---- model: per service the value sequences of each writer
    let seqs = |s: usize| -> Vec<(usize, Vec<u8>)> {
        writers
            .iter()
            .enumerate()
            .map(|(i, w)| (i, w.iter().filter(|op| op.svc as usize % 3 == s).map(|op| op.st % 3).collect::<Vec<u8>>()))
            .filter(|(_, v)| !v.is_empty())
            .collect()
    };
    // initial status (if any) followed by every update of every writer, writer by writer
    let all_values = |s: usize| -> Vec<i32> {
        init_v[s].iter().map(|v| *v as i32).chain(seqs(s).iter().flat_map(|(_, v)| v.iter().map(|x| *x as i32).collect::<Vec<_>>())).collect()
    };
    let names = |v: &[i32]| v.iter().map(|x| wire_name(*x)).collect::<Vec<_>>().join(",");
    let mut final_v: [Option<i32>; 3] = [None; 3];
    for s in 0..3 {
        let sq = seqs(s);
        o.label_if(sq.len() >= 2, "shared_service");
        o.label_if(sq.len() == 1, "single_owner_service");
        o.label_if(init_v[s].is_none() && !sq.is_empty(), "stress_registered_concurrently");
        if sq.is_empty() {
            // nobody writes it: exactly the history oracle
            judge_check(&out.finals[s], init_v[s], s, "stress, after all writers finished")?;
            final_v[s] = init_v[s].map(|v| v as i32);
            continue;
        }
        let cands: Vec<i32> = sq.iter().map(|(_, v)| *v.last().unwrap() as i32).collect();
        match &out.finals[s] {
            Ok(g) => {
                ensure!(
                    cands.contains(g),
                    if sq.len() == 1 { "C18/stress-check-latest" } else { "C18/stress-check-shared" },
                    "after all writers finished Check({:?}) = {}; the last update of its writer(s) is one of [{}]",
                    NAMES[s],
                    wire_name(*g),
                    names(&cands)
                );
                final_v[s] = Some(*g);
            }
            Err(e) => bail!(
                "C18/stress-check-latest",
                "after all writers finished Check({:?}) failed with {:?} ({}) although it was set {} times",
                NAMES[s],
                e.code(),
                e.message(),
                sq.iter().map(|(_, v)| v.len()).sum::<usize>()
            ),
        }
    }
    // read-your-writes
    for (wi, wo) in out.writer_outs.iter().enumerate() {
        for (i, s, got) in &wo.checks {
            let sq = seqs(*s);
            match got {
                Err(e) => bail!("C18/stress-check-latest", "writer {wi} op {i}: Check({:?}) right after its own update failed with {e}", NAMES[*s]),
                Ok(g) => {
                    if sq.len() == 1 {
                        let want = writers[wi][*i].st % 3;
                        ensure!(
                            *g == want as i32,
                            "C18/stress-check-latest",
                            "writer {wi} (only writer of {:?}) op {i}: Check right after set({}) returned {}",
                            NAMES[*s],
                            wire_name(want as i32),
                            wire_name(*g)
                        );
                        o.label("stress_read_your_write");
                    } else {
                        ensure!(
                            all_values(*s).contains(g),
                            "C18/stress-check-shared",
                            "writer {wi} op {i}: Check({:?}) returned {} which nobody set",
                            NAMES[*s],
                            wire_name(*g)
                        );
                    }
                }
            }
        }
    }
    // watchers
    for (k, (s, _)) in watchers.iter().enumerate() {
        let s = *s as usize % 3;
        let sq = seqs(s);
        let Some(r) = &out.phase1[k] else {
            let why = out.phase2[k].as_ref().err().cloned().unwrap_or_default();
            bail!("C18/stress-watcher-lost", "watcher {k} of {:?} did not report ({why})", NAMES[s]);
        };
        if let Some((not_found, e)) = &r.rejected {
            // legitimate only while the service may still be unregistered
            ensure!(
                init_v[s].is_none(),
                "C18/stress-watch-rejected",
                "watcher {k}: Watch({:?}) of a service that is registered throughout failed with {e}",
                NAMES[s]
            );
            ensure!(*not_found, "C18/watch-not-found", "watcher {k}: Watch({:?}) of a not yet registered service failed with {e}, expected NOT_FOUND", NAMES[s]);
            o.label("stress_watch_before_registration");
            continue;
        }
        ensure!(
            init_v[s].is_some() || !sq.is_empty(),
            "C18/watch-not-found",
            "watcher {k}: Watch({:?}) succeeded but nobody ever set that service (expected NOT_FOUND)",
            NAMES[s]
        );
        if let Some(e) = &r.error {
            bail!("C18/stress-stream-error", "watcher {k} of {:?}: stream yielded an error {e}", NAMES[s]);
        }
        let set = all_values(s);
        for it in &r.items {
            ensure!(
                set.contains(it),
                "C18/stress-unset-status",
                "watcher {k} of {:?} reported {} which was never set for it (reported [{}])",
                NAMES[s],
                wire_name(*it),
                names(&r.items)
            );
        }
        if sq.len() <= 1 {
            // at most one writer: reports are a subsequence of initial ++ its updates
            let mut p = 0usize;
            for it in &r.items {
                match set[p..].iter().position(|v| v == it) {
                    Some(j) => p += j + 1,
                    None => bail!(
                        "C18/stress-order",
                        "watcher {k} of {:?} (single writer) reported [{}] which is not a subsequence of initial ++ updates [{}]",
                        NAMES[s],
                        names(&r.items),
                        names(&set)
                    ),
                }
            }
            o.label("stress_single_owner_watched");
        } else {
            o.label("stress_shared_watched");
        }
        ensure!(
            !r.ended,
            "C18/stress-ended-while-registered",
            "watcher {k} of {:?}: stream ended although the service was never cleared (reported [{}])",
            NAMES[s],
            names(&r.items)
        );
        ensure!(
            r.items.last().copied() == final_v[s] && final_v[s].is_some(),
            "C18/stress-final",
            "watcher {k} of {:?}: after all writers finished and a drain the last report is {:?}, the latest status is {:?} (reported [{}])",
            NAMES[s],
            r.items.last().map(|v| wire_name(*v)),
            final_v[s].map(wire_name),
            names(&r.items)
        );
        o.label_if(r.items.len() >= 3, "stress_watcher_saw>=3");
        match &out.phase2[k] {
            Err(e) => bail!("C18/stress-watcher-lost", "watcher {k} task failed: {e}"),
            Ok(after) => {
                ensure!(
                    after.items.is_empty(),
                    "C18/stress-item-after-final",
                    "watcher {k} of {:?}: after the clear the stream reported [{}] although the latest status had been reported already",
                    NAMES[s],
                    names(&after.items)
                );
                ensure!(after.error.is_none(), "C18/stress-stream-error", "watcher {k} of {:?}: error after clear: {:?}", NAMES[s], after.error);
                ensure!(
                    after.ended,
                    "C18/stress-not-ended-after-clear",
                    "watcher {k} of {:?}: the service was cleared but a poll of the stream is still pending",
                    NAMES[s]
                );
            }
        }
    }
    for s in 0..3 {
        judge_check(&out.after_clear[s], None, s, "stress, after the final clear")?;
    }
    o.nontrivial = watchers.len() >= 2 && writers.iter().any(|w| !w.is_empty());
    Ok(())
}

pub fn run(c: &Case, o: &mut Outcome) -> Result<(), Failure> {
    match c {
        Case::Hist { seed, ops } => run_hist(*seed, ops, o),
        Case::Stress { seed, workers, init, writers, watchers } => {
            // The schedule is not owned here. The script is repeated so that a race that showed once is
            // likely to show again when the (shrunk) script is replayed; a failure observed for exactly
            // this script earlier in this process is reported again (marked as such) if it does not
            // show on this run, so that the verdict carries the real clause instead of "flaky".
            let key = fnv64(serde_json::to_string(c).unwrap_or_default().as_bytes());
            for rep in 0..STRESS_REPS {
                if let Err(f) = run_stress(seed.wrapping_add(rep), *workers, *init, writers, watchers, o) {
                    SEEN_STRESS_FAILURES.lock().unwrap().insert(key, f.clone());
                    return Err(f);
                }
            }
            if let Some(f) = SEEN_STRESS_FAILURES.lock().unwrap().get(&key) {
                return Err(Failure {
                    sig: f.sig.clone(),
                    detail: format!("[schedule-dependent: observed on an earlier run of this same script, not on the latest {STRESS_REPS} runs] {}", f.detail),
                });
            }
            Ok(())
        }
    }
}

static SEEN_STRESS_FAILURES: std::sync::Mutex<std::collections::BTreeMap<u64, Failure>> = std::sync::Mutex::new(std::collections::BTreeMap::new());

// ------------------------------------------------------------------------------------------- prop

pub struct C18;
impl Prop for C18 {
    const ID: &'static str = "C18";
    type Case = Case;
    fn strategy() -> BoxedStrategy<Case> {
        strategy()
    }
    fn run(c: &Case, o: &mut Outcome) -> Result<(), Failure> {
        run(c, o)
    }
    fn rule() -> &'static str {
        "proptest, two families (31:1). (a) histories of <=30 ops over services {\"\",a,b} x statuses {UNKNOWN,SERVING,NOT_SERVING}: Set (set_service_status with &str / String on a cloned reporter / set_serving::<S> / set_not_serving::<S>), Clear, Check, Watch (<=4 live watchers; pull-driven or eagerly pumped by a task), Next (drain until pending), Drop; free histories plus woven skeletons (watch..clear..set on one service; two watchers of one service with 1-3 updates); driven through the generated HealthClient in-process on a paused current_thread runtime (seeded), quiesce (1 ms virtual) after each op; all services checked and all watchers drained at the end. Oracle: reference model service -> generations -> values set; Check = latest or NOT_FOUND (\"\" SERVING by default); a watcher's reports are a subsequence of [status at subscription] ++ later values of its generation, first report = status at subscription when no update intervened, after each drain the last report = latest status (registered) or the stream has ended with last report = last status before the clear (cleared); Watch of an unregistered name = NOT_FOUND. (b) stress: multi-thread runtime (2-4 workers), 2-4 writers (<=12 updates each, optional read-your-write Check, partitioned or shared services; a/b optionally unregistered at the start), 2-4 watchers subscribing concurrently, each script run 12 times; synchronisation by barrier/join/channel only, drains by polling with a no-op waker after the writers were joined; invariants only (Watch rejected only with NOT_FOUND and only for a service that starts unregistered; reports were set; single-writer services: subsequence + read-your-writes; after joining writers Check = a writer's last update and every watcher's last report = Check; after clear streams end without further items, Check = NOT_FOUND). Non-trivial: (a) a Set re-registers a cleared service while a watcher of it is alive, or >=2 open watchers of one service; (b) >=2 watchers and >=1 update. Distinct = distinct serialised case. The three services are the empty name, `a` and the free-form name `1st/pay-ments..v2 \u{e9}`. (The ordinary name is now the health service's own, grpc.health.v1.Health: nothing is registered for it unless set.) (The free-form name is 300 bytes long.)"
    }
    fn assumptions() -> Vec<String> {
        vec![
            "coalescing of intermediate updates is allowed everywhere; re-setting the current value may or may not produce a duplicate report".into(),
            "the first report is pinned to the status at subscription only when no update intervened before the watcher was first drained (the in-process response body is pull-driven)".into(),
            "stress family: verdicts are invariant-based and schedule-independent, but a failing schedule may not replay bit-for-bit; the replay file is the operation script".into(),
        ]
    }
    fn cases(t: Tier) -> u64 {
        match t {
            Tier::Quick => 64_000,
            Tier::Thorough => 2_000_000,
        }
    }
    fn fixed_cases(_t: Tier) -> Vec<Case> {
        use Op::*;
        // sensitivity experiments only: measure what the random search alone finds
        if std::env::var_os("C18_NO_FIXED").is_some() {
            return vec![];
        }
        let h = |ops: Vec<Op>| Case::Hist { seed: 0, ops };
        let mut v = vec![
            // the empty name is SERVING by default, for Check and both kinds of Watch
            h(vec![Check(0), Watch(0, false), Watch(0, true), Next(0), Next(1)]),
            // never-set names
            h(vec![Check(1), Watch(1, false), Watch(2, true), Check(2)]),
            // tonic's own unit-test sequence
            h(vec![Set(1, 0, 0), Watch(1, false), Next(0), Set(1, 2, 0), Next(0), Set(1, 1, 0), Next(0), Clear(1), Next(0)]),
            // clear -> set on a watched service; old watcher must not see the new registration
            h(vec![Set(1, 1, 0), Watch(1, false), Watch(1, true), Next(0), Next(1), Clear(1), Set(1, 2, 0), Watch(1, false), Next(0), Next(1), Next(2), Check(1)]),
            // unreported status, then clear: reported before the end
            h(vec![Set(2, 1, 1), Watch(2, false), Next(0), Set(2, 2, 1), Clear(2), Next(0), Check(2), Watch(2, false)]),
            // clear of the empty name and re-registration
            h(vec![Watch(0, true), Clear(0), Check(0), Watch(0, false), Set(0, 2, 1), Check(0), Watch(0, false), Next(0), Next(1)]),
            // coalescing and duplicates
            h(vec![Set(1, 1, 0), Watch(1, false), Watch(1, true), Set(1, 1, 0), Set(1, 2, 2), Set(1, 2, 0), Set(1, 0, 0), Next(0), Next(1)]),
            // subscription then update before the first drain
            h(vec![Set(1, 1, 0), Watch(1, false), Set(1, 2, 0), Next(0), Drop(0), Set(1, 1, 0), Check(1)]),
        ];
        v.push(Case::Stress {
            seed: 1,
            workers: 2,
            init: (None, Some(0), None),
            writers: vec![
                (0..8).map(|i| WOp { svc: 1, st: (i % 3) as u8, yields: (i % 2) as u8, check: i % 3 == 0 }).collect(),
                (0..8).map(|i| WOp { svc: 0, st: ((i + 1) % 3) as u8, yields: 0, check: false }).collect(),
                (0..6).map(|i| WOp { svc: 2, st: ((i + 2) % 3) as u8, yields: 1, check: i == 0 }).collect(),
            ],
            watchers: vec![(1, 0), (1, 2), (0, 1), (2, 3)],
        });
        v
    }
    fn fixed_is_exhaustive() -> Option<&'static str> {
        None
    }
    fn from_bytes(data: &[u8]) -> Option<Case> {
        use arbitrary::Unstructured;
        let mut u = Unstructured::new(data);
        let seed = u.arbitrary::<u64>().ok()?;
        let n = u.int_in_range(0usize..=MAX_OPS).ok()?;
        let mut ops = vec![];
        for _ in 0..n {
            let s = u.int_in_range(0u8..=2).ok()?;
            let op = match u.int_in_range(0u8..=9).ok()? {
                0..=3 => Op::Set(s, u.int_in_range(0u8..=2).ok()?, u.int_in_range(0u8..=2).ok()?),
                4 => Op::Clear(s),
                5 => Op::Check(s),
                6 | 7 => Op::Watch(s, u.arbitrary::<bool>().ok()?),
                8 => Op::Next(u.int_in_range(0u8..=3).ok()?),
                _ => {
                    if u.arbitrary::<bool>().ok()? {
                        Op::Next(u.int_in_range(0u8..=3).ok()?)
                    } else {
                        Op::Drop(u.int_in_range(0u8..=3).ok()?)
                    }
                }
            };
            ops.push(op);
        }
        Some(Case::Hist { seed, ops })
    }
}
