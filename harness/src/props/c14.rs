//! C14 – a channel always answers and recovers when the peer comes back.
use crate::infra::blob::Blob;
use crate::infra::handler::{HandlerScript, RespMsg, Shared};
use crate::infra::net::Net;
use crate::infra::pipe::PipeEnd;
use crate::infra::rt;
use crate::infra::runner::*;
use crate::props::c02::pipe_schedule;
use crate::svc::vt;
use crate::{bail, ensure};
use hyper_util::rt::TokioIo;
use proptest::prelude::*;
use serde::{Deserialize, Serialize};
use std::sync::atomic::{AtomicUsize, Ordering};
use std::sync::{Arc, Mutex};
use std::time::Duration;
use tonic::Code;

#[derive(Clone, Copy, Debug, Serialize, Deserialize, PartialEq, Eq)]
pub enum Attempt {
    Succeed,
    Refused,
    Reset,
    TimedOut,
    Other,
    /// the connector never answers; only generated together with a connect timeout
    Hang,
}

#[derive(Clone, Debug, Serialize, Deserialize, PartialEq, Eq)]
pub enum Step {
    /// unary call with this payload
    Call(Blob),
    /// server-streaming call
    StreamCall,
    /// unary call whose deadline has already passed (`set_timeout(Duration::ZERO)`): its own result is
    /// not judged, but it must not disturb the calls after it
    CallExpired,
    /// the peer of the current connection vanishes
    Kill,
    /// the server closes the current connection cleanly (server side of the pipe dropped)
    Idle(u16),
}

#[derive(Clone, Debug, Serialize, Deserialize)]
pub struct Case {
    pub lazy: bool,
    /// outcome of the k-th connector invocation (cycled)
    pub attempts: Vec<Attempt>,
    pub steps: Vec<Step>,
    pub connect_timeout_ms: Option<u16>,
    pub c2s: Vec<u8>,
    pub s2c: Vec<u8>,
    pub rt_seed: u64,
    /// the connector reports itself not ready (Pending) for as long as the connection it handed out is alive:
    /// a live connection must not depend on the connector
    #[serde(default)]
    pub gated_connector: bool,
    /// Some -> the balanced-channel family instead of the history above
    #[serde(default)]
    pub balanced: Option<Balanced>,
    /// Some -> the unix-socket family
    #[serde(default)]
    pub uds: Option<Uds>,
}

/// A `unix:` endpoint (tonic's own UDS connector, real sockets, real-time runtime): `calls` unary calls, the
/// server starts listening right before call `up_before` (0: from the start; >= calls: never).
#[derive(Clone, Debug, Serialize, Deserialize, PartialEq, Eq)]
pub struct Uds {
    pub lazy: bool,
    pub calls: u8,
    pub up_before: u8,
}

/// `Channel::balance_list` over endpoints that are all down (loopback ports nobody listens on): balanced
/// channels only connect over real TCP, so this family runs on a real-time runtime and is judged by counting
/// (answered calls, connection attempts seen through Reconnect's trace events), never by elapsed time.
#[derive(Clone, Debug, Serialize, Deserialize, PartialEq, Eq)]
pub struct Balanced {
    pub endpoints: u8,
    pub calls: u8,
}

pub fn strategy() -> BoxedStrategy<Case> {
    let plain = (any::<bool>(), proptest::option::weighted(0.3, 5u16..200))
        .prop_flat_map(|(lazy, cto)| {
            let att = if cto.is_some() {
                prop_oneof![5 => Just(Attempt::Succeed), 2 => Just(Attempt::Refused), 1 => Just(Attempt::Reset), 1 => Just(Attempt::TimedOut), 1 => Just(Attempt::Other), 2 => Just(Attempt::Hang)].boxed()
            } else {
                prop_oneof![5 => Just(Attempt::Succeed), 2 => Just(Attempt::Refused), 1 => Just(Attempt::Reset), 1 => Just(Attempt::TimedOut), 1 => Just(Attempt::Other)].boxed()
            };
            let step = prop_oneof![
                5 => crate::infra::blob::small_bytes(12).prop_map(Step::Call),
                1 => Just(Step::StreamCall),
                1 => Just(Step::CallExpired),
                3 => Just(Step::Kill),
                1 => (1u16..500).prop_map(Step::Idle),
            ];
            (proptest::collection::vec(att, 1..8), proptest::collection::vec(step, 1..=12), pipe_schedule(), pipe_schedule(), any::<u64>(), proptest::bool::weighted(0.3))
                .prop_map(move |(attempts, steps, c2s, s2c, rt_seed, gated_connector)| Case { lazy, attempts, steps, connect_timeout_ms: cto, c2s, s2c, rt_seed, gated_connector, balanced: None, uds: None })
        })
        .boxed();
    let balanced = (1u8..=3, 1u8..=4).prop_map(|(endpoints, calls)| Case {
        lazy: true,
        attempts: vec![Attempt::Refused],
        steps: vec![],
        connect_timeout_ms: None,
        c2s: vec![],
        s2c: vec![],
        rt_seed: 0,
        gated_connector: false,
        balanced: Some(Balanced { endpoints, calls }),
        uds: None,
    });
    let uds = (any::<bool>(), 1u8..=4, 0u8..=4).prop_map(|(lazy, calls, up_before)| Case {
        lazy,
        attempts: vec![Attempt::Refused],
        steps: vec![],
        connect_timeout_ms: None,
        c2s: vec![],
        s2c: vec![],
        rt_seed: 0,
        gated_connector: false,
        balanced: None,
        uds: Some(Uds { lazy, calls, up_before }),
    });
    prop_oneof![97 => plain, 2 => balanced, 1 => uds].boxed()
}

/// more connection attempts than this while ONE call is outstanding = a reconnect loop that no call drives
const STORM: usize = 200;
/// one balanced case at a time per process: the "dead" ports are found by binding and releasing a listener
static BALANCED_LOCK: Mutex<()> = Mutex::new(());

/// Watches a real-time current-thread runtime from another thread. Two verdicts, both by counting:
/// * storm: more than STORM connection attempts since the current call began;
/// * deadlock: the worker is parked, no socket is registered with the I/O driver and nothing was polled for
///   `idle_rounds` observations in a row - with no connection and no socket nothing can ever wake the call
///   (the only timer is the harness' own guard).
struct Monitor {
    stop: Arc<std::sync::atomic::AtomicBool>,
    verdict: Arc<Mutex<Option<&'static str>>>,
    handle: Option<std::thread::JoinHandle<()>>,
}
impl Monitor {
    fn start(rt: &tokio::runtime::Runtime, attempts: Arc<AtomicUsize>, call_base: Arc<AtomicUsize>, wake: Arc<tokio::sync::Notify>, need_no_fds: bool) -> Monitor {
        let stop = Arc::new(std::sync::atomic::AtomicBool::new(false));
        let verdict = Arc::new(Mutex::new(None));
        let m = rt.handle().metrics();
        let (stop2, verdict2) = (stop.clone(), verdict.clone());
        let handle = std::thread::spawn(move || {
            let mut last_polls = u64::MAX;
            let mut streak = 0u32;
            while !stop2.load(Ordering::SeqCst) {
                std::thread::sleep(Duration::from_millis(2));
                if attempts.load(Ordering::SeqCst).saturating_sub(call_base.load(Ordering::SeqCst)) > STORM {
                    *verdict2.lock().unwrap() = Some("storm");
                    wake.notify_one();
                    return;
                }
                let fds = m.io_driver_fd_registered_count().saturating_sub(m.io_driver_fd_deregistered_count());
                let parked = m.worker_park_unpark_count(0) % 2 == 1;
                let polls = m.worker_poll_count(0);
                if need_no_fds && fds == 0 && parked && polls == last_polls {
                    streak += 1;
                } else {
                    streak = 0;
                }
                last_polls = polls;
                if streak >= 150 {
                    *verdict2.lock().unwrap() = Some("deadlock");
                    wake.notify_one();
                    return;
                }
            }
        });
        Monitor { stop, verdict, handle: Some(handle) }
    }
    fn finish(mut self) -> Option<&'static str> {
        self.stop.store(true, Ordering::SeqCst);
        if let Some(h) = self.handle.take() {
            let _ = h.join();
        }
        *self.verdict.lock().unwrap()
    }
}

enum RealCall {
    Done(Result<Vec<u8>, (Code, String)>, usize),
    Storm(usize),
    Deadlock(usize),
    Guard,
}

fn run_balanced(b: &Balanced, o: &mut Outcome) -> Result<(), Failure> {
    use RealCall as R;
    let _g = BALANCED_LOCK.lock().unwrap_or_else(|e| e.into_inner());
    let runtime = tokio::runtime::Builder::new_current_thread().enable_all().build().expect("runtime");
    let (attempts, thread) = crate::infra::tracecount::reconnect_attempts();
    *thread.lock().unwrap_or_else(|e| e.into_inner()) = Some(std::thread::current().id());
    let acc = attempts.clone();
    let b2 = b.clone();
    let call_base = Arc::new(AtomicUsize::new(attempts.load(Ordering::SeqCst)));
    let wake = Arc::new(tokio::sync::Notify::new());
    let monitor = Monitor::start(&runtime, attempts.clone(), call_base.clone(), wake.clone(), true);
    let verdict = monitor.verdict.clone();
    let res: Result<Vec<R>, String> = {
        runtime.block_on(async move {
            let mut eps = vec![];
            for _ in 0..b2.endpoints.max(1) {
                let l = std::net::TcpListener::bind("127.0.0.1:0").map_err(|e| format!("bind: {e}"))?;
                let port = l.local_addr().map_err(|e| format!("local_addr: {e}"))?.port();
                drop(l);
                eps.push(tonic::transport::Endpoint::from_shared(format!("http://127.0.0.1:{port}")).map_err(|e| format!("{e:?}"))?);
            }
            // any iterator will do, also one that cannot tell its length (size_hint (0, None))
            let ch = if b2.endpoints % 2 == 1 { tonic::transport::Channel::balance_list({
                let mut rest = eps;
                rest.reverse();
                std::iter::from_fn(move || rest.pop())
            }) } else { tonic::transport::Channel::balance_list(eps.into_iter()) };
            let mut client = vt::raw_client::RawClient::new(ch);
            let mut out = vec![];
            for _ in 0..b2.calls.max(1) {
                let before = acc.load(Ordering::SeqCst);
                call_base.store(before, Ordering::SeqCst);
                tokio::select! {
                    biased;
                    r = client.unary(b"ping".to_vec()) => out.push(R::Done(r.map(|r| r.into_inner()).map_err(|s| (s.code(), s.message().to_string())), acc.load(Ordering::SeqCst) - before)),
                    _ = wake.notified() => {
                        let n = acc.load(Ordering::SeqCst) - before;
                        out.push(if *verdict.lock().unwrap() == Some("storm") { R::Storm(n) } else { R::Deadlock(n) });
                        break
                    }
                    _ = tokio::time::sleep(Duration::from_secs(120)) => { out.push(R::Guard); break }
                }
            }
            Ok(out)
        })
    };
    let _ = monitor.finish();
    drop(runtime);
    let out = match res {
        Ok(o) => o,
        Err(e) => {
            // no loopback sockets in this environment: nothing can be said
            println!("INCONCLUSIVE property=C14 balanced-channel family cannot use loopback sockets: {e}");
            std::process::exit(2);
        }
    };
    o.label("balanced_channel_all_endpoints_down");
    o.label_if(b.endpoints > 1, "balanced_several_endpoints");
    o.nontrivial = b.calls > 1;
    for (i, r) in out.iter().enumerate() {
        match r {
            R::Done(Ok(_), _) => bail!("C14/success-without-connection", "balanced channel: call {i} succeeded although nothing listens on its endpoints"),
            R::Done(Err((code, _)), n) => {
                // the code is judged by the scripted-connector family; a foreign process may have taken the port
                o.label_if(*code == Code::Unavailable, "balanced_unavailable");
                o.label_if(*n > 0, "balanced_attempts_counted");
            }
            R::Storm(n) => bail!("C14/call-never-resolves/reconnect-loop", "balanced channel, all {} endpoints down: call {i} was not answered while {n} connection attempts were started", b.endpoints),
            R::Deadlock(n) => bail!("C14/call-never-resolves/balanced-idle", "balanced channel, all {} endpoints down: call {i} was never answered - after {n} connection attempt(s) the runtime is parked with no socket registered and nothing left to poll", b.endpoints),
            R::Guard => {
                println!("INCONCLUSIVE property=C14 balanced-channel call {i} neither resolved nor caused connection attempts within 120 s of real time");
                std::process::exit(2);
            }
        }
    }
    Ok(())
}

/// `unix:` endpoints use tonic's own connector (a different one from TCP and from custom connectors): a lazy
/// or eager channel to a socket path where the server appears only before call `up_before`.
fn run_uds(u: &Uds, o: &mut Outcome) -> Result<(), Failure> {
    static SEQ: AtomicUsize = AtomicUsize::new(0);
    let path = std::env::temp_dir().join(format!("vh-c14-{}-{}.sock", std::process::id(), SEQ.fetch_add(1, Ordering::SeqCst)));
    let _ = std::fs::remove_file(&path);
    let runtime = tokio::runtime::Builder::new_current_thread().enable_all().build().expect("runtime");
    let sh = Shared::new(vec![HandlerScript { msgs: vec![RespMsg { data: Blob::of(b"pong"), pend: 0, delay_ms: 0 }], ..Default::default() }]);
    let u2 = u.clone();
    let p2 = path.clone();
    let res: Result<(Option<bool>, Vec<Option<Result<Vec<u8>, (Code, String)>>>), String> = runtime.block_on(async move {
        let uri = format!("unix:{}", p2.display());
        let mut server: Option<tokio::task::JoinHandle<()>> = None;
        let bring_up = |sh: Shared| {
            let l = tokio::net::UnixListener::bind(&p2).map_err(|e| format!("bind {p2:?}: {e}"))?;
            let incoming = async_stream::stream! {
                loop {
                    match l.accept().await {
                        Ok((s, _)) => yield Ok::<_, std::io::Error>(s),
                        Err(e) => yield Err(e),
                    }
                }
            };
            Ok::<_, String>(tokio::spawn(async move {
                let _ = tonic::transport::Server::builder().add_service(vt::raw_server::RawServer::new(sh)).serve_with_incoming(incoming).await;
            }))
        };
        if u2.up_before == 0 {
            server = Some(bring_up(sh.clone())?);
        }
        let mut ep = tonic::transport::Endpoint::try_from(uri).map_err(|e| format!("{e:?}"))?;
        if u2.calls % 2 == 0 {
            // "no connect timeout", spelled as the largest one
            ep = ep.connect_timeout(Duration::MAX);
        }
        let mut eager = None;
        let ch = if u2.lazy {
            ep.connect_lazy()
        } else {
            match tokio::time::timeout(Duration::from_secs(60), ep.connect()).await {
                Err(_) => return Ok((None, vec![None])),
                Ok(Ok(ch)) => {
                    eager = Some(true);
                    ch
                }
                Ok(Err(_)) => return Ok((Some(false), vec![])),
            }
        };
        let mut client = vt::raw_client::RawClient::new(ch);
        let mut out = vec![];
        for i in 0..u2.calls.max(1) {
            if i == u2.up_before && server.is_none() {
                server = Some(bring_up(sh.clone())?);
            }
            match tokio::time::timeout(Duration::from_secs(60), client.unary(b"ping".to_vec())).await {
                Err(_) => {
                    out.push(None);
                    break;
                }
                Ok(r) => out.push(Some(r.map(|r| r.into_inner()).map_err(|s| (s.code(), s.message().to_string())))),
            }
        }
        if let Some(s) = server {
            s.abort();
        }
        Ok((eager, out))
    });
    drop(runtime);
    let _ = std::fs::remove_file(&path);
    let (eager, out) = match res {
        Ok(x) => x,
        Err(e) => {
            println!("INCONCLUSIVE property=C14 unix-socket family cannot use {path:?}: {e}");
            std::process::exit(2);
        }
    };
    o.label("unix_socket_endpoint");
    o.label_if(u.lazy, "lazy");
    o.label_if(!u.lazy, "eager");
    o.nontrivial = u.up_before > 0 && u.up_before < u.calls;
    if out.iter().any(|r| r.is_none()) {
        println!("INCONCLUSIVE property=C14 a call (or the eager connect) over a unix socket did not resolve within 60 s of real time");
        std::process::exit(2);
    }
    if !u.lazy {
        if u.up_before == 0 {
            ensure!(eager == Some(true), "C14/eager-connect-failed", "unix socket: eager connect failed although the server is listening");
        } else {
            ensure!(eager == Some(false), "C14/eager-connect-hides-failure", "unix socket: eager connect succeeded although nothing listens on the path");
            o.label("eager_initial_failure");
            return Ok(());
        }
    }
    for (i, r) in out.iter().enumerate() {
        let r = r.as_ref().unwrap();
        if (i as u8) < u.up_before {
            match r {
                Ok(_) => bail!("C14/success-without-connection", "unix socket: call {i} succeeded before the server existed"),
                Err((code, msg)) => ensure!(*code == Code::Unavailable, "C14/connect-failure-not-unavailable/unix-socket", "unix socket, nobody listening: call {i} failed with {code:?} {msg:?}"),
            }
        } else {
            match r {
                Ok(v) => ensure!(v == b"pong", "C14/response-altered", "unix socket: response {v:?}"),
                Err(e) => bail!(if i > 0 && (i as u8) == u.up_before { "C14/no-recovery" } else { "C14/call-failed-on-live-connection" }, "unix socket: the server listens since before call {} but call {i} failed: {e:?}", u.up_before),
            }
            o.label_if(i > 0 && (i as u8) == u.up_before, "recovery");
        }
    }
    Ok(())
}

/// Connector wrapper whose readiness is withheld while the connection it produced is alive.
#[derive(Clone)]
struct Gated<C> {
    inner: C,
    live: Arc<std::sync::atomic::AtomicBool>,
    gated: bool,
}
impl<C> tower::Service<http::Uri> for Gated<C>
where
    C: tower::Service<http::Uri>,
{
    type Response = C::Response;
    type Error = C::Error;
    type Future = C::Future;
    fn poll_ready(&mut self, cx: &mut std::task::Context<'_>) -> std::task::Poll<Result<(), Self::Error>> {
        if self.gated && self.live.load(Ordering::SeqCst) {
            // not ready, and nobody will wake us: whoever depends on this hangs
            return std::task::Poll::Pending;
        }
        self.inner.poll_ready(cx)
    }
    fn call(&mut self, u: http::Uri) -> Self::Future {
        self.inner.call(u)
    }
}

#[derive(Debug)]
enum Obs {
    EagerConnect(Result<(), String>, u64),
    Call(Result<Vec<u8>, (Code, String)>, u64),
    Stream(Result<usize, (Code, String)>, u64),
    Expired(Result<(), (Code, String)>),
}

pub fn run(c: &Case, o: &mut Outcome) -> Result<(), Failure> {
    if let Some(b) = &c.balanced {
        return run_balanced(b, o);
    }
    if let Some(u) = &c.uds {
        return run_uds(u, o);
    }
    let sh = Shared::new(vec![HandlerScript {
        msgs: vec![RespMsg { data: Blob::of(b"pong"), pend: 0, delay_ms: 0 }, RespMsg { data: Blob::of(b"pong2"), pend: 0, delay_ms: 0 }],
        ..Default::default()
    }]);
    let (net, incoming) = Net::new(vec![(c.c2s.clone(), c.s2c.clone())]);
    let invocations = Arc::new(AtomicUsize::new(0));
    let case = c.clone();
    let sh2 = sh.clone();
    let inv2 = invocations.clone();
    let net2 = net.clone();
    let res = rt::run_virtual(c.rt_seed, Duration::from_secs(7200), async move {
        let router = tonic::transport::Server::builder().add_service(vt::raw_server::RawServer::new(sh2.clone()));
        let srv = tokio::spawn(async move { router.serve_with_incoming(incoming).await });
        let script = Arc::new(case.attempts.clone());
        let live_for_connector = Arc::new(std::sync::atomic::AtomicBool::new(false));
        let live_shared = live_for_connector.clone();
        let connector = {
            let net = net2.clone();
            let inv = inv2.clone();
            tower::service_fn(move |_u: http::Uri| {
                let k = inv.fetch_add(1, Ordering::SeqCst);
                let what = script[k % script.len()];
                let net = net.clone();
                let live2 = live_for_connector.clone();
                async move {
                    use std::io::{Error, ErrorKind};
                    match what {
                        Attempt::Succeed => net.open().map(|(c, _)| {
                            live2.store(true, Ordering::SeqCst);
                            TokioIo::new(c)
                        }),
                        Attempt::Refused => Err::<TokioIo<PipeEnd>, _>(Error::new(ErrorKind::ConnectionRefused, "refused")),
                        Attempt::Reset => Err(Error::new(ErrorKind::ConnectionReset, "reset")),
                        Attempt::TimedOut => Err(Error::new(ErrorKind::TimedOut, "timed out")),
                        Attempt::Other => Err(Error::new(ErrorKind::Other, "other")),
                        Attempt::Hang => std::future::pending().await,
                    }
                }
            })
        };
        let live = live_shared.clone();
        let connector = Gated { inner: connector, live: live.clone(), gated: case.gated_connector };
        let mut ep = tonic::transport::Endpoint::from_static("http://pipe.test");
        if let Some(t) = case.connect_timeout_ms {
            ep = ep.connect_timeout(Duration::from_millis(t as u64));
        }
        let mut obs: Vec<Obs> = vec![];
        let ch = if case.lazy {
            ep.connect_with_connector_lazy(connector)
        } else {
            let t0 = rt::virtual_ms().unwrap_or(0);
            match ep.connect_with_connector(connector).await {
                Ok(ch) => {
                    obs.push(Obs::EagerConnect(Ok(()), rt::virtual_ms().unwrap_or(0) - t0));
                    ch
                }
                Err(e) => {
                    obs.push(Obs::EagerConnect(Err(format!("{e:?}")), rt::virtual_ms().unwrap_or(0) - t0));
                    srv.abort();
                    return obs;
                }
            }
        };
        let mut client = vt::raw_client::RawClient::new(ch);
        for st in &case.steps {
            rt::quiesce().await;
            match st {
                Step::Call(b) => {
                    let t0 = rt::virtual_ms().unwrap_or(0);
                    let r = client.unary(b.bytes()).await;
                    let dt = rt::virtual_ms().unwrap_or(0) - t0;
                    obs.push(Obs::Call(r.map(|r| r.into_inner()).map_err(|s| (s.code(), s.message().to_string())), dt));
                }
                Step::StreamCall => {
                    let t0 = rt::virtual_ms().unwrap_or(0);
                    let r = async {
                        let mut s = client.server_stream(b"s".to_vec()).await?.into_inner();
                        let mut n = 0usize;
                        while s.message().await?.is_some() {
                            n += 1;
                        }
                        Ok::<_, tonic::Status>(n)
                    }
                    .await;
                    let dt = rt::virtual_ms().unwrap_or(0) - t0;
                    obs.push(Obs::Stream(r.map_err(|s| (s.code(), s.message().to_string())), dt));
                }
                Step::CallExpired => {
                    let mut req = tonic::Request::new(b"late".to_vec());
                    req.set_timeout(Duration::ZERO);
                    let r = client.unary(req).await;
                    obs.push(Obs::Expired(r.map(|_| ()).map_err(|s| (s.code(), s.message().to_string()))));
                }
                Step::Kill => {
                    if let Some(h) = net2.conns.lock().unwrap().last() {
                        h.kill();
                    }
                    live.store(false, Ordering::SeqCst);
                }
                Step::Idle(ms) => tokio::time::sleep(Duration::from_millis(*ms as u64)).await,
            }
        }
        rt::quiesce().await;
        srv.abort();
        obs
    });
    let obs = match res {
        Err(_) => bail!("C14/call-never-resolves", "a call (or the eager connect) never resolved (virtual-time watchdog)"),
        Ok(o) => o,
    };

    // ---------------- reference model
    let att = |k: usize| c.attempts[k % c.attempts.len()];
    let cto = c.connect_timeout_ms.map(|t| t as u64);
    let mut used = 0usize; // connector invocations so far
    let mut live = false;
    let mut it = obs.iter();
    let mut recoveries = 0;
    let mut failures = 0;
    if !c.lazy {
        let a = att(used);
        used += 1;
        match it.next() {
            Some(Obs::EagerConnect(r, dt)) => {
                if a == Attempt::Succeed {
                    ensure!(r.is_ok(), "C14/eager-connect-failed", "eager connect failed although the connector succeeded: {r:?}");
                    live = true;
                } else {
                    ensure!(r.is_err(), "C14/eager-connect-hides-failure", "eager connect succeeded although the first attempt was {a:?}");
                    let want = if a == Attempt::Hang { cto.unwrap_or(0) } else { 0 };
                    ensure!(dt.abs_diff(want) <= 2, "C14/eager-failure-not-immediate", "eager connect failure ({a:?}) reported after {dt} ms, expected {want} ms");
                    o.label("eager_initial_failure");
                    o.nontrivial = true;
                    ensure!(invocations.load(Ordering::SeqCst) == used, "C14/connector-invocations", "{} connector invocations, model says {used}", invocations.load(Ordering::SeqCst));
                    return Ok(());
                }
            }
            other => bail!("C14/harness", "expected eager connect observation, got {other:?}"),
        }
    }
    let mut prev_failed = false;
    for st in &c.steps {
        match st {
            Step::Kill => {
                o.label_if(live, "kill_live_connection");
                live = false;
                // the kill hits the most recent connection; if none is live it is a no-op
            }
            Step::Idle(_) => {}
            Step::CallExpired => {
                // like any call it needs a connection: without one it triggers (and consumes) an attempt
                let res = match it.next() {
                    Some(Obs::Expired(r)) => r,
                    other => bail!("C14/harness", "expected expired-call observation, got {other:?}"),
                };
                o.label("call_with_expired_deadline");
                if !live {
                    let a = att(used);
                    used += 1;
                    if a == Attempt::Succeed {
                        live = true;
                        prev_failed = false;
                    } else {
                        ensure!(res.is_err(), "C14/success-without-connection", "expired call succeeded although connection attempt {} was {a:?}", used - 1);
                        failures += 1;
                        prev_failed = true;
                    }
                }
            }
            Step::Call(_) | Step::StreamCall => {
                let (res, dt): (Result<(), &(Code, String)>, u64) = match it.next() {
                    Some(Obs::Call(r, dt)) => {
                        if let Ok(v) = r {
                            ensure!(v == b"pong", "C14/response-altered", "unary response {:?}", v);
                        }
                        (r.as_ref().map(|_| ()), *dt)
                    }
                    Some(Obs::Stream(r, dt)) => {
                        if let Ok(n) = r {
                            ensure!(*n == 2, "C14/response-altered", "stream delivered {n} messages");
                        }
                        (r.as_ref().map(|_| ()), *dt)
                    }
                    other => bail!("C14/harness", "expected call observation, got {other:?}"),
                };
                if live {
                    ensure!(res.is_ok(), "C14/call-failed-on-live-connection", "call on a live connection failed: {:?}", res.err());
                    prev_failed = false;
                } else {
                    let a = att(used);
                    used += 1;
                    if a == Attempt::Succeed {
                        match res {
                            Ok(()) => {}
                            Err(e) => bail!(if prev_failed { "C14/stale-error-replayed" } else { "C14/no-recovery" }, "endpoint reachable again (attempt {} succeeds) but the call failed: {e:?}", used - 1),
                        }
                        live = true;
                        recoveries += 1;
                        prev_failed = false;
                    } else {
                        match res {
                            Ok(()) => bail!("C14/success-without-connection", "call succeeded although connection attempt {} was {a:?}", used - 1),
                            Err((code, msg)) => {
                                ensure!(
                                    *code == Code::Unavailable,
                                    if a == Attempt::Hang { "C14/connect-failure-not-unavailable/connect-timeout" } else { "C14/connect-failure-not-unavailable/connector-error" },
                                    "connection attempt {a:?} surfaced as {code:?} {msg:?}"
                                );
                            }
                        }
                        if a == Attempt::Hang {
                            let want = cto.unwrap_or(0);
                            ensure!(dt.abs_diff(want) <= 2, "C14/connect-timeout-not-honoured", "hanging connect surfaced after {dt} ms, connect_timeout {want} ms");
                        }
                        failures += 1;
                        prev_failed = true;
                    }
                }
            }
        }
    }
    let inv = invocations.load(Ordering::SeqCst);
    ensure!(inv == used, "C14/connector-invocations", "{inv} connector invocations, model says {used}");
    o.label_if(c.gated_connector, "connector_not_ready_while_connected");
    o.label_if(c.lazy, "lazy");
    o.label_if(!c.lazy, "eager");
    o.label_if(recoveries > 0, "recovery");
    o.label_if(failures > 0, "failed_attempt_reported");
    o.label_if(c.attempts.contains(&Attempt::Hang), "hanging_connect");
    o.label_if(c.steps.iter().any(|s| matches!(s, Step::StreamCall)), "stream_call");
    // recovery = a call that needed a fresh attempt after a failure or a kill and got one
    o.nontrivial = recoveries > 0 && (failures > 0 || c.steps.iter().any(|s| matches!(s, Step::Kill)));
    Ok(())
}

pub struct C14;
impl Prop for C14 {
    const ID: &'static str = "C14";
    type Case = Case;
    fn strategy() -> BoxedStrategy<Case> {
        strategy()
    }
    fn run(c: &Case, o: &mut Outcome) -> Result<(), Failure> {
        run(c, o)
    }
    fn rule() -> &'static str {
        "model-based proptest over fault histories: scripted connector for Endpoint::connect_with_connector[_lazy] (per attempt: succeed -> in-memory pipe to a tonic server, or fail with ConnectionRefused / ConnectionReset / TimedOut / Other, or hang under a connect_timeout) x up to 12 steps over {unary call, server-streaming call, kill the current connection, idle} each issued at a quiescent point of a paused single-threaded runtime x lazy/eager x pipe fragmentation x scheduler seed. Reference model: connection state {none, live}; a call on a live connection succeeds with the scripted response; a call without one makes exactly one connector invocation, succeeds iff that attempt succeeds, otherwise fails with UNAVAILABLE (after exactly connect_timeout for a hanging attempt) and the next call makes a fresh attempt; eager connect reports a failing first attempt immediately; total connector invocations equal the model's; nothing panics; every call resolves (virtual-time watchdog). Also: calls whose deadline has already expired interleaved in the history (their own result is not judged; they consume an attempt like any call and must not leave a failure behind for the next call); a connector that reports not-ready while its connection is alive; and a balanced-channel family (2% of cases): Channel::balance_list over 1-3 loopback ports nobody listens on (real TCP, real-time runtime), 1-4 calls, each must be answered with an error while at most 200 connection attempts (counted through Reconnect's own trace events) are started for it. Non-trivial: the history contains a recovery (fail->succeed or kill->call->succeed), or a balanced case with more than one call. A monitor thread reading the runtime metrics recognises a certain deadlock of a balanced-channel call (worker parked, no socket registered with the I/O driver, nothing polled for 150 observations). Unix-socket family (1%): Endpoint unix:<path> through tonic's own connector, lazy or eager, 1-4 calls, the server starts listening right before call k: calls before k fail with UNAVAILABLE, calls from k on succeed (recovery), eager connect reports the initial failure. balance_list is also fed from an iterator without an upper size bound. The unix-socket family sets connect_timeout(Duration::MAX) on even call counts."
    }
    fn assumptions() -> Vec<String> {
        vec![
            "faults are injected at quiescent points between calls (the property's quantifier); faults racing an in-flight call are not generated".into(),
            "balanced channels are outside the statement's quantifier (lazy/eager channels) and can only connect over real TCP: only 'every call is answered' and 'no reconnect loop' are judged there, by counting attempts; a 120 s real-time guard without any attempt being counted is reported as INCONCLUSIVE (exit 2), never as a violation".into(),
        ]
    }
    fn cases(t: Tier) -> u64 {
        match t {
            Tier::Quick => 16_000,
            Tier::Thorough => 150_000,
        }
    }
    fn max_shrink_iters() -> u32 {
        800
    }
}
