//! C12 – interceptors change only what they change, and can veto a call.
//!
//! A recording inner `tower::Service<http::Request<ReqBody>>` is wrapped by
//! `InterceptedService::new` / `InterceptorLayer` with an interceptor that plays a scripted list
//! of operations on the `tonic::Request<()>` it is handed (metadata and extensions only) and then
//! accepts or rejects. The oracle is a reference model of the request: an ordered multimap of the
//! original headers to which the same operations are applied, plus a four-slot extension model.
use crate::infra::blob::{hex, small_bytes, Blob};
use crate::infra::driver::{block_on_budget, poll_budget};
use crate::infra::gen;
use crate::infra::md::{self, MdEntry};
use crate::infra::runner::*;
use crate::infra::script::{BodyStep, ScriptBody};
use crate::infra::wire;
use crate::{bail, ensure};
use bytes::Bytes;
use http::{HeaderMap, HeaderName, HeaderValue};
use http_body::Body;
use proptest::prelude::*;
use serde::{Deserialize, Serialize};
use std::future::Future;
use std::pin::Pin;
use std::sync::{Arc, Mutex};
use std::task::{Context, Poll};
use tonic::service::interceptor::InterceptedService;
use tonic::service::{Interceptor, InterceptorLayer};
use tonic::{Code, Status};
use tower_layer::Layer;
use tower_service::Service;

// ---------------------------------------------------------------- case

pub const METHODS: [&str; 7] = ["GET", "POST", "OPTIONS", "PUT", "PURGE", "M-SEARCH", "EXTENSIONMETHODLONGERTHANINLINE"];
pub const VERSIONS: [http::Version; 5] =
    [http::Version::HTTP_09, http::Version::HTTP_10, http::Version::HTTP_11, http::Version::HTTP_2, http::Version::HTTP_3];
pub const URI_POOL: [&str; 13] = [
    "/",
    "/vt.Test/Unary",
    "/a/b?x=1&y=2",
    "http://example.com/vt.Test/Unary",
    "https://user@host.example:8443/p/q?k=v&k=w",
    "*",
    "example.com:443",
    "/%E2%82%AC/x?%20=%2F",
    "http://[::1]:50051/pkg.Svc/M",
    "/?",
    "//double//slash",
    "http://example.com",
    "grpc://x.y/Z?",
];
/// names that are not metadata-reserved but steer tonic elsewhere; they must pass through untouched
const EXTRA_NAMES: [&str; 5] = ["grpc-timeout", "grpc-encoding", "grpc-accept-encoding", "authorization", "host"];

#[derive(Clone, Debug, Serialize, Deserialize, PartialEq)]
pub enum Op {
    /// metadata_mut().insert / insert_bin
    Insert(MdEntry),
    /// metadata_mut().append / append_bin
    Append(MdEntry),
    /// metadata_mut().remove / remove_bin
    Remove(String),
    /// *metadata_mut() = a new map built from the entries
    Replace(Vec<MdEntry>),
    /// the interceptor returns a brand new `Request::new(())` (no metadata, no extensions)
    Fresh,
    /// extensions_mut().insert(ExtD(v))
    ExtAdd(u64),
    /// extensions_mut().insert(ExtA(v)) (overrides an original one)
    ExtSetA(u32),
    /// extensions_mut().remove::<A|B|C|D>()
    ExtRemove(u8),
}

#[derive(Clone, Debug, Serialize, Deserialize)]
pub struct Reject {
    pub code: i32,
    pub message: String,
    pub details: Blob,
    pub md: Vec<MdEntry>,
    /// the status metadata also holds an entry named grpc-status-details-bin (e.g. upstream trailers forwarded as
    /// metadata); only used together with non-empty details, which must win
    #[serde(default)]
    pub shadow: bool,
}

#[derive(Clone, Debug, Serialize, Deserialize)]
pub struct RespSpec {
    /// inner future resolves to Err(InnerErr(tag))
    pub err: bool,
    pub status: u16,
    /// spurious Pendings of the inner future
    pub pend: u8,
    pub data_frames: u8,
    pub trailers: bool,
}

#[derive(Clone, Debug, Serialize, Deserialize)]
pub struct Case {
    /// 0 = InterceptedService::new(inner, closure), 1 = InterceptorLayer::new(closure).layer(inner),
    /// 2 = InterceptedService::new(inner, struct implementing Interceptor)
    pub form: u8,
    pub method: u8,
    pub version: u8,
    pub uri: String,
    /// raw wire (name, value) pairs, appended in order
    pub headers: Vec<MdEntry>,
    pub ext_a: Option<u32>,
    pub ext_b: Option<String>,
    pub ext_c: bool,
    pub body_id: u64,
    pub ops: Vec<Op>,
    pub reject: Option<Reject>,
    pub resp: RespSpec,
}

// ---------------------------------------------------------------- generator

fn wire_value_for(name: &str) -> BoxedStrategy<Vec<u8>> {
    if name.ends_with("-bin") {
        prop_oneof![
            5 => (proptest::collection::vec(any::<u8>(), 0..=14), any::<bool>()).prop_map(|(d, pad)| wire::b64_encode(&d, pad).into_bytes()),
            // not base64 at all: opaque to the interceptor path
            1 => proptest::collection::vec(prop_oneof![0x20u8..=0x7e, 0x80u8..=0xff, Just(b'\t')], 0..=10),
        ]
        .boxed()
    } else if name == "grpc-timeout" {
        prop_oneof![
            Just("5S"), Just("100m"), Just("0n"), Just("99999999H"), Just("123456789S"), Just("+5S"), Just("1 S"), Just(""), Just("abc")
        ]
        .prop_map(|s| s.as_bytes().to_vec())
        .boxed()
    } else if name == "te" {
        prop_oneof![3 => Just(b"trailers".to_vec()), 1 => md::ascii_value(true)].boxed()
    } else if name == "content-type" {
        prop_oneof![Just("application/grpc"), Just("application/grpc+proto"), Just("application/grpc-web"), Just("text/plain"), Just("")]
            .prop_map(|s| s.as_bytes().to_vec())
            .boxed()
    } else {
        prop_oneof![
            6 => md::ascii_value(true),
            1 => Just(vec![]),
            1 => proptest::collection::vec(prop_oneof![Just(b'\t'), Just(b' '), 0x80u8..=0xff, 0x21u8..=0x7e], 1..=8),
        ]
        .boxed()
    }
}

fn req_name() -> BoxedStrategy<String> {
    prop_oneof![
        7 => md::name(true),
        2 => proptest::sample::select(&wire::RESERVED_METADATA[..]).prop_map(|s| s.to_string()),
        2 => proptest::sample::select(&EXTRA_NAMES[..]).prop_map(|s| s.to_string()),
    ]
    .boxed()
}

fn req_headers() -> BoxedStrategy<Vec<MdEntry>> {
    let one = req_name().prop_flat_map(|n| {
        // 1-3 values under the same name (repeated names are a boundary class), not adjacent by construction
        proptest::collection::vec(wire_value_for(&n), 1..=3).prop_map(move |vs| vs.into_iter().map(|v| MdEntry { name: n.clone(), val: hex(&v) }).collect::<Vec<_>>())
    });
    (proptest::collection::vec(one, 0..=6), any::<u16>())
        .prop_map(|(groups, rot)| {
            // interleave: take the first value of every group, then the second, ... then rotate
            let mut out = vec![];
            let max = groups.iter().map(|g| g.len()).max().unwrap_or(0);
            for i in 0..max {
                for g in &groups {
                    if let Some(e) = g.get(i) {
                        out.push(e.clone());
                    }
                }
            }
            let k = gen::pick(rot, out.len().max(1));
            out.rotate_left(k);
            out
        })
        .boxed()
}

/// metadata entry as an interceptor would add it (ASCII: header bytes; `-bin`: undecoded bytes)
fn md_entry_for(name: String) -> BoxedStrategy<MdEntry> {
    let v: BoxedStrategy<Vec<u8>> = if name.ends_with("-bin") {
        proptest::collection::vec(any::<u8>(), 0..=20).boxed()
    } else {
        md::ascii_value(true)
    };
    v.prop_map(move |v| MdEntry { name: name.clone(), val: hex(&v) }).boxed()
}

fn op_name(existing: Vec<String>) -> BoxedStrategy<String> {
    if existing.is_empty() {
        prop_oneof![4 => md::name(true), 1 => Just("grpc-timeout".to_string())].boxed()
    } else {
        prop_oneof![
            5 => proptest::sample::select(existing),
            3 => md::name(true),
            1 => proptest::sample::select(&wire::RESERVED_METADATA[..]).prop_map(|s| s.to_string()),
            1 => Just("grpc-timeout".to_string()),
        ]
        .boxed()
    }
}

fn op(existing: Vec<String>) -> BoxedStrategy<Op> {
    prop_oneof![
        4 => op_name(existing.clone()).prop_flat_map(md_entry_for).prop_map(Op::Insert),
        4 => op_name(existing.clone()).prop_flat_map(md_entry_for).prop_map(Op::Append),
        4 => op_name(existing).prop_map(Op::Remove),
        1 => md::entries(4, true, true).prop_map(Op::Replace),
        1 => Just(Op::Fresh),
        2 => any::<u64>().prop_map(Op::ExtAdd),
        1 => any::<u32>().prop_map(Op::ExtSetA),
        2 => (0u8..4).prop_map(Op::ExtRemove),
    ]
    .boxed()
}

fn uri() -> BoxedStrategy<String> {
    let built = (
        proptest::option::weighted(0.3, proptest::sample::select(&["http://a.example", "https://h:1", "grpc://x.y", "http://10.0.0.1:50051"][..])),
        proptest::collection::vec("[A-Za-z0-9._~-]{1,8}", 0..4),
        proptest::option::weighted(0.4, "[a-z0-9=&+]{0,10}"),
    )
        .prop_map(|(auth, segs, q)| {
            let mut s = auth.unwrap_or("").to_string();
            s.push('/');
            s.push_str(&segs.join("/"));
            if let Some(q) = q {
                s.push('?');
                s.push_str(&q);
            }
            s
        });
    prop_oneof![1 => proptest::sample::select(&URI_POOL[..]).prop_map(|s| s.to_string()), 1 => built].boxed()
}

fn reject() -> BoxedStrategy<Reject> {
    (
        0i32..=16,
        prop_oneof![1 => Just(String::new()), 6 => gen::unicode_string(24), 1 => gen::unicode_string(200)],
        prop_oneof![2 => Just(Blob::Hex(String::new())), 5 => small_bytes(40), 1 => (0u32..=200, any::<u32>()).prop_map(|(n, s)| Blob::Rnd(n, s))],
        md::entries(5, true, true),
        proptest::bool::weighted(0.2),
    )
        .prop_map(|(code, message, details, md, shadow)| Reject { code, message, details, md, shadow })
        .boxed()
}

fn resp() -> BoxedStrategy<RespSpec> {
    (
        proptest::bool::weighted(0.1),
        prop_oneof![3 => Just(200u16), 1 => proptest::sample::select(&[204u16, 404, 418, 500, 503][..])],
        prop_oneof![4 => Just(0u8), 1 => 1u8..=3],
        0u8..=2,
        any::<bool>(),
    )
        .prop_map(|(err, status, pend, data_frames, trailers)| RespSpec { err, status, pend, data_frames, trailers })
        .boxed()
}

pub fn strategy() -> BoxedStrategy<Case> {
    req_headers()
        .prop_flat_map(|headers| {
            let mut names: Vec<String> = vec![];
            for h in &headers {
                if !names.contains(&h.name) {
                    names.push(h.name.clone());
                }
            }
            (
                Just(headers),
                prop_oneof![2 => Just(0u8), 1 => Just(1u8), 1 => Just(2u8)],
                (0u8..METHODS.len() as u8, 0u8..VERSIONS.len() as u8, uri()),
                (proptest::option::weighted(0.6, any::<u32>()), proptest::option::weighted(0.5, gen::unicode_string(6)), any::<bool>()),
                any::<u64>(),
                prop_oneof![
                    1 => Just(vec![]),
                    5 => proptest::collection::vec(op(names.clone()), 1..=1),
                    3 => proptest::collection::vec(op(names), 2..=4),
                ],
                proptest::option::weighted(0.3, reject()),
                resp(),
            )
        })
        .prop_map(|(headers, form, (method, version, uri), (ext_a, ext_b, ext_c), body_id, ops, reject, resp)| Case {
            form,
            method,
            version,
            uri,
            headers,
            ext_a,
            ext_b,
            ext_c,
            body_id,
            ops,
            reject,
            resp,
        })
        .boxed()
}

// ---------------------------------------------------------------- reference model

#[derive(Clone, Debug, PartialEq)]
enum Exp {
    /// the wire value must be these bytes
    Raw(Vec<u8>),
    /// the wire value must be base64 that independently decodes to these bytes
    B64(Vec<u8>),
}

#[derive(Clone, Debug, Default, PartialEq)]
struct ExtModel {
    a: Option<u32>,
    b: Option<String>,
    c: bool,
    d: Option<u64>,
}
impl ExtModel {
    fn count(&self) -> usize {
        self.a.is_some() as usize + self.b.is_some() as usize + self.c as usize + self.d.is_some() as usize
    }
}

type HdrModel = Vec<(String, Vec<Exp>)>;

fn exp_of(e: &MdEntry) -> Exp {
    if e.is_bin() {
        Exp::B64(e.bytes())
    } else {
        Exp::Raw(e.bytes())
    }
}

fn model_headers(raw: &[MdEntry]) -> HdrModel {
    let mut m: HdrModel = vec![];
    for e in raw {
        model_append(&mut m, &e.name, Exp::Raw(e.bytes()));
    }
    m
}

fn model_append(m: &mut HdrModel, name: &str, v: Exp) {
    if let Some(x) = m.iter_mut().find(|x| x.0 == name) {
        x.1.push(v);
    } else {
        m.push((name.to_string(), vec![v]));
    }
}

fn model_apply(op: &Op, h: &mut HdrModel, x: &mut ExtModel) {
    match op {
        Op::Insert(e) => {
            h.retain(|k| k.0 != e.name);
            h.push((e.name.clone(), vec![exp_of(e)]));
        }
        Op::Append(e) => model_append(h, &e.name, exp_of(e)),
        Op::Remove(n) => h.retain(|k| k.0 != *n),
        Op::Replace(es) => {
            h.clear();
            for e in es {
                model_append(h, &e.name, exp_of(e));
            }
        }
        Op::Fresh => {
            h.clear();
            *x = ExtModel::default();
        }
        Op::ExtAdd(v) => x.d = Some(*v),
        Op::ExtSetA(v) => x.a = Some(*v),
        Op::ExtRemove(w) => match w % 4 {
            0 => x.a = None,
            1 => x.b = None,
            2 => x.c = false,
            _ => x.d = None,
        },
    }
}

/// `got` (name, raw value) in iteration order against the model: same key set, per key the same
/// ordered value list.
fn compare_headers(got: &[(String, Vec<u8>)], want: &HdrModel) -> Result<(), (String, String)> {
    for (name, vals) in want {
        let g: Vec<&Vec<u8>> = got.iter().filter(|x| x.0 == *name).map(|x| &x.1).collect();
        let class = if wire::RESERVED_METADATA.contains(&name.as_str()) { "reserved" } else { "plain" };
        if g.len() != vals.len() {
            let kind = if g.is_empty() { "header-lost" } else { "header-count" };
            return Err((format!("{kind}/{class}"), format!("key {name:?}: expected {} values, found {}", vals.len(), g.len())));
        }
        for (i, (g, v)) in g.iter().zip(vals.iter()).enumerate() {
            match v {
                Exp::Raw(b) => {
                    if *g != b {
                        return Err((format!("header-value/{class}"), format!("key {name:?} value {i}: {} != {}", hex(g), hex(b))));
                    }
                }
                Exp::B64(b) => match wire::b64_decode(g) {
                    Some(d) if d == *b => {}
                    other => {
                        return Err((
                            "header-value/bin".into(),
                            format!("key {name:?} value {i}: wire {:?} decodes to {:?}, expected {}", String::from_utf8_lossy(g), other.map(|d| hex(&d)), hex(b)),
                        ))
                    }
                },
            }
        }
    }
    for (k, _) in got {
        if !want.iter().any(|w| w.0 == *k) {
            return Err(("header-extra".into(), format!("unexpected key {k:?}")));
        }
    }
    Ok(())
}

// ---------------------------------------------------------------- extension markers, body, inner service

#[derive(Clone, Debug, PartialEq)]
struct ExtA(u32);
#[derive(Clone, Debug, PartialEq)]
struct ExtB(String);
#[derive(Clone, Debug, PartialEq)]
struct ExtC;
#[derive(Clone, Debug, PartialEq)]
struct ExtD(u64);
/// response-side marker set by the inner service
#[derive(Clone, Debug, PartialEq)]
struct RespExt(u64);

fn ext_snapshot(e: &http::Extensions) -> (ExtModel, usize) {
    (
        ExtModel {
            a: e.get::<ExtA>().map(|v| v.0),
            b: e.get::<ExtB>().map(|v| v.0.clone()),
            c: e.get::<ExtC>().is_some(),
            d: e.get::<ExtD>().map(|v| v.0),
        },
        e.len(),
    )
}

fn header_list(h: &HeaderMap) -> Vec<(String, Vec<u8>)> {
    h.iter().map(|(k, v)| (k.as_str().to_string(), v.as_bytes().to_vec())).collect()
}

/// request body: neither Clone nor Default, carries only its tag
struct ReqBody {
    id: u64,
}

#[derive(Debug, PartialEq)]
struct InnerErr(u64);

#[derive(Debug)]
struct Seen {
    method: String,
    version: http::Version,
    uri: http::Uri,
    headers: Vec<(String, Vec<u8>)>,
    exts: ExtModel,
    ext_len: usize,
    body_id: u64,
}

#[derive(Default)]
struct Rec {
    inner_calls: u32,
    seen: Option<Seen>,
    interceptor_calls: u32,
    view_headers: Vec<(String, Vec<u8>)>,
    view_exts: Option<(ExtModel, usize)>,
}

fn resp_data(tag: u64, i: u8) -> Bytes {
    Bytes::from(format!("inner-{tag:016x}-{i}").into_bytes())
}
fn resp_trailers(tag: u64) -> HeaderMap {
    let mut t = HeaderMap::new();
    t.insert("grpc-status", HeaderValue::from_static("0"));
    t.insert("x-trailer-tag", HeaderValue::from_str(&tag.to_string()).unwrap());
    t
}

fn build_response(spec: &RespSpec, tag: u64) -> Result<http::Response<ScriptBody>, InnerErr> {
    if spec.err {
        return Err(InnerErr(tag));
    }
    let mut steps = vec![];
    for i in 0..spec.data_frames {
        steps.push(BodyStep::Data(resp_data(tag, i)));
    }
    if spec.trailers {
        steps.push(BodyStep::Trailers(resp_trailers(tag)));
    }
    let mut r = http::Response::new(ScriptBody::new(steps));
    *r.status_mut() = http::StatusCode::from_u16(spec.status).unwrap();
    *r.version_mut() = http::Version::HTTP_2;
    r.headers_mut().insert("x-inner-tag", HeaderValue::from_str(&tag.to_string()).unwrap());
    r.headers_mut().append("x-inner-rep", HeaderValue::from_static("1"));
    r.headers_mut().append("x-inner-rep", HeaderValue::from_static("2"));
    r.headers_mut().insert("content-type", HeaderValue::from_static("application/grpc+inner"));
    r.extensions_mut().insert(RespExt(tag));
    Ok(r)
}

struct InnerFut {
    pend: u8,
    out: Option<Result<http::Response<ScriptBody>, InnerErr>>,
}
impl Future for InnerFut {
    type Output = Result<http::Response<ScriptBody>, InnerErr>;
    fn poll(mut self: Pin<&mut Self>, cx: &mut Context<'_>) -> Poll<Self::Output> {
        if self.pend > 0 {
            self.pend -= 1;
            cx.waker().wake_by_ref();
            return Poll::Pending;
        }
        Poll::Ready(self.out.take().expect("inner future polled after completion"))
    }
}

#[derive(Clone)]
struct Recorder {
    rec: Arc<Mutex<Rec>>,
    resp: RespSpec,
}
impl Service<http::Request<ReqBody>> for Recorder {
    type Response = http::Response<ScriptBody>;
    type Error = InnerErr;
    type Future = InnerFut;
    fn poll_ready(&mut self, _cx: &mut Context<'_>) -> Poll<Result<(), InnerErr>> {
        Poll::Ready(Ok(()))
    }
    fn call(&mut self, req: http::Request<ReqBody>) -> InnerFut {
        let (parts, body) = req.into_parts();
        let (exts, ext_len) = ext_snapshot(&parts.extensions);
        let mut r = self.rec.lock().unwrap();
        r.inner_calls += 1;
        r.seen = Some(Seen {
            method: parts.method.as_str().to_string(),
            version: parts.version,
            uri: parts.uri.clone(),
            headers: header_list(&parts.headers),
            exts,
            ext_len,
            body_id: body.id,
        });
        InnerFut { pend: self.resp.pend, out: Some(build_response(&self.resp, body.id)) }
    }
}

// ---------------------------------------------------------------- the scripted interceptor

fn apply_real(op: &Op, req: &mut tonic::Request<()>) {
    use tonic::metadata::{Ascii, Binary, MetadataKey, MetadataValue};
    match op {
        Op::Insert(e) | Op::Append(e) => {
            let insert = matches!(op, Op::Insert(_));
            if e.is_bin() {
                let k = MetadataKey::<Binary>::from_bytes(e.name.as_bytes()).expect("valid bin key");
                let v = MetadataValue::<Binary>::from_bytes(&e.bytes());
                if insert {
                    req.metadata_mut().insert_bin(k, v);
                } else {
                    req.metadata_mut().append_bin(k, v);
                }
            } else {
                let k = MetadataKey::<Ascii>::from_bytes(e.name.as_bytes()).expect("valid ascii key");
                let v = MetadataValue::<Ascii>::try_from(&e.bytes()[..]).expect("valid ascii value");
                if insert {
                    req.metadata_mut().insert(k, v);
                } else {
                    req.metadata_mut().append(k, v);
                }
            }
        }
        Op::Remove(n) => {
            if n.ends_with("-bin") {
                req.metadata_mut().remove_bin(n.as_str());
            } else {
                req.metadata_mut().remove(n.as_str());
            }
        }
        Op::Replace(es) => *req.metadata_mut() = md::build_map(es),
        Op::Fresh => *req = tonic::Request::new(()),
        Op::ExtAdd(v) => {
            req.extensions_mut().insert(ExtD(*v));
        }
        Op::ExtSetA(v) => {
            req.extensions_mut().insert(ExtA(*v));
        }
        Op::ExtRemove(w) => match w % 4 {
            0 => {
                req.extensions_mut().remove::<ExtA>();
            }
            1 => {
                req.extensions_mut().remove::<ExtB>();
            }
            2 => {
                req.extensions_mut().remove::<ExtC>();
            }
            _ => {
                req.extensions_mut().remove::<ExtD>();
            }
        },
    }
}

fn build_status(r: &Reject) -> Status {
    let mut meta = md::build_map(&r.md);
    if r.shadow && !r.details.bytes().is_empty() {
        meta.insert_bin("grpc-status-details-bin", tonic::metadata::MetadataValue::from_bytes(b"details forged through metadata"));
    }
    Status::with_details_and_metadata(Code::from_i32(r.code), r.message.clone(), Bytes::from(r.details.bytes()), meta)
}

#[derive(Clone)]
struct Script {
    rec: Arc<Mutex<Rec>>,
    ops: Vec<Op>,
    reject: Option<Reject>,
}
impl Script {
    fn play(&mut self, mut req: tonic::Request<()>) -> Result<tonic::Request<()>, Status> {
        {
            let mut r = self.rec.lock().unwrap();
            r.interceptor_calls += 1;
            r.view_headers = header_list(&req.metadata().clone().into_headers());
            r.view_exts = Some(ext_snapshot(req.extensions()));
        }
        for op in &self.ops {
            apply_real(op, &mut req);
        }
        match &self.reject {
            Some(r) => Err(build_status(r)),
            None => Ok(req),
        }
    }
}
impl Interceptor for Script {
    fn call(&mut self, req: tonic::Request<()>) -> Result<tonic::Request<()>, Status> {
        self.play(req)
    }
}

// ---------------------------------------------------------------- run

type Out<B> = Result<http::Response<B>, InnerErr>;

/// Drains a response body: (data frames, trailers blocks in order as events, error?) – `Err` when it
/// does not end within the budget.
#[derive(Debug, PartialEq)]
enum Fr {
    Data(Vec<u8>),
    Trailers(Vec<(String, Vec<u8>)>),
    Err(String),
}
fn drain<B: Body<Data = Bytes, Error = Status> + Unpin>(mut b: B) -> Result<Vec<Fr>, ()> {
    let mut out = vec![];
    for _ in 0..16 {
        let fr = poll_budget(8, |cx| Pin::new(&mut b).poll_frame(cx)).map_err(|_| ())?;
        match fr {
            None => return Ok(out),
            Some(Err(s)) => out.push(Fr::Err(format!("{s:?}"))),
            Some(Ok(f)) => match f.into_data() {
                Ok(d) => out.push(Fr::Data(d.to_vec())),
                Err(f) => match f.into_trailers() {
                    Ok(t) => out.push(Fr::Trailers(header_list(&t))),
                    Err(_) => out.push(Fr::Err("unknown frame kind".into())),
                },
            },
        }
    }
    Err(())
}

fn judge<B: Body<Data = Bytes, Error = Status> + Unpin>(c: &Case, rec: &Arc<Mutex<Rec>>, orig_uri: &http::Uri, out: Out<B>, o: &mut Outcome) -> Result<(), Failure> {
    let r = rec.lock().unwrap();
    let orig = model_headers(&c.headers);
    let orig_ext = ExtModel { a: c.ext_a, b: c.ext_b.clone(), c: c.ext_c, d: None };

    // ---- what the interceptor was shown
    ensure!(r.interceptor_calls == 1, "C12/interceptor-calls", "interceptor invoked {} times for one request", r.interceptor_calls);
    if let Err((k, d)) = compare_headers(&r.view_headers, &orig) {
        bail!(format!("C12/interceptor-view/{k}"), "metadata shown to the interceptor differs from the request headers: {d}");
    }
    let (vx, vlen) = r.view_exts.clone().unwrap();
    ensure!(vx == orig_ext && vlen == orig_ext.count(), "C12/interceptor-view/extensions", "extensions shown to the interceptor {vx:?} (len {vlen}) != original {orig_ext:?}");

    if let Some(rej) = &c.reject {
        // ---- veto
        ensure!(r.inner_calls == 0, "C12/reject-inner-called", "wrapped service invoked {} times although the interceptor rejected", r.inner_calls);
        let resp = match out {
            Ok(resp) => resp,
            Err(e) => bail!("C12/reject-not-a-response", "rejection surfaced as a service error {e:?} instead of a gRPC response"),
        };
        ensure!(resp.status() == http::StatusCode::OK, "C12/reject-http-status", "rejection response has HTTP status {}", resp.status());
        let ct: Vec<_> = resp.headers().get_all("content-type").iter().map(|v| v.as_bytes().to_vec()).collect();
        ensure!(ct.len() == 1 && ct[0] == b"application/grpc", "C12/reject-content-type", "rejection response content-type values {:?}", ct.iter().map(|v| String::from_utf8_lossy(v).into_owned()).collect::<Vec<_>>());
        let h = resp.headers().clone();
        // independent reading of the status headers
        let gs: Vec<_> = h.get_all("grpc-status").iter().collect();
        ensure!(gs.len() == 1 && gs[0].as_bytes() == rej.code.to_string().as_bytes(), "C12/reject-grpc-status", "grpc-status values {gs:?} for code {}", rej.code);
        let gm: Vec<_> = h.get_all("grpc-message").iter().collect();
        if rej.message.is_empty() {
            ensure!(gm.is_empty() || (gm.len() == 1 && gm[0].is_empty()), "C12/reject-grpc-message", "grpc-message {gm:?} for an empty message");
        } else {
            ensure!(gm.len() == 1, "C12/reject-grpc-message", "{} grpc-message headers", gm.len());
            let dec = wire::percent_decode(gm[0].as_bytes());
            ensure!(dec == rej.message.as_bytes(), "C12/reject-grpc-message", "grpc-message {:?} decodes to {:?}, expected {:?}", gm[0], String::from_utf8_lossy(&dec), rej.message);
        }
        let details = rej.details.bytes();
        let gd: Vec<_> = h.get_all("grpc-status-details-bin").iter().collect();
        if details.is_empty() {
            ensure!(gd.is_empty() || (gd.len() == 1 && gd[0].is_empty()), "C12/reject-details", "details header {gd:?} for empty details");
        } else {
            ensure!(gd.len() == 1 && wire::b64_decode(gd[0].as_bytes()).as_deref() == Some(&details[..]), "C12/reject-details", "details header {gd:?} does not decode to {}", hex(&details));
        }
        if let Err(e) = md::check_present(&h, &rej.md, Some(&["grpc-status", "grpc-message", "grpc-status-details-bin", "content-type"])) {
            bail!("C12/reject-metadata", "{e}");
        }
        // read back with tonic's own reader (what a tonic client does with a trailers-only response)
        let Some(back) = Status::from_header_map(&h) else { bail!("C12/reject-read-back", "from_header_map found no status in the rejection response") };
        ensure!(back.code() == Code::from_i32(rej.code), "C12/reject-read-back", "code {:?} != {:?}", back.code(), Code::from_i32(rej.code));
        ensure!(back.message() == rej.message, "C12/reject-read-back", "message {:?} != {:?}", back.message(), rej.message);
        ensure!(back.details() == &details[..], "C12/reject-read-back", "details {} != {}", hex(back.details()), hex(&details));
        if let Err(e) = md::check_present(&back.metadata().clone().into_headers(), &rej.md, Some(&["content-type"])) {
            bail!("C12/reject-read-back-metadata", "{e}");
        }
        // trailers-only: nothing but headers
        let body = resp.into_body();
        ensure!(body.is_end_stream(), "C12/reject-body-not-end-stream", "rejection body does not report is_end_stream() (headers would not carry END_STREAM)");
        match drain(body) {
            Ok(frames) => ensure!(frames.is_empty(), "C12/reject-body-frames", "rejection body yields frames {frames:?}"),
            Err(()) => bail!("C12/reject-body-stuck", "rejection body does not end"),
        }
        let (_, _, res) = md::label_md(&rej.md);
        o.label("reject");
        o.label_if(!rej.md.is_empty(), "reject_with_metadata");
        o.label_if(res, "reject_md_reserved_name");
        o.label_if(rej.code == 0, "reject_code_ok");
        o.label_if(!details.is_empty(), "reject_with_details");
        o.label_if(rej.shadow && !details.is_empty(), "reject_metadata_named_like_details_header");
        o.label_if(rej.message.bytes().any(|b| !(0x20..=0x7e).contains(&b) || b == b'%'), "reject_message_needs_escaping");
        o.label_if(!c.ops.is_empty(), "reject_after_ops");
        return Ok(());
    }

    // ---- accept
    ensure!(r.inner_calls == 1, "C12/accept-inner-calls", "wrapped service invoked {} times for an accepted request", r.inner_calls);
    let seen = r.seen.as_ref().unwrap();
    ensure!(seen.method == METHODS[c.method as usize], format!("C12/method/{}", METHODS[c.method as usize]), "inner saw method {:?}, request had {:?}", seen.method, METHODS[c.method as usize]);
    ensure!(seen.version == VERSIONS[c.version as usize], format!("C12/version/{:?}", VERSIONS[c.version as usize]), "inner saw {:?}, request had {:?}", seen.version, VERSIONS[c.version as usize]);
    ensure!(
        seen.uri == *orig_uri
            && seen.uri.to_string() == orig_uri.to_string()
            && seen.uri.scheme_str() == orig_uri.scheme_str()
            && seen.uri.authority().map(|a| a.as_str()) == orig_uri.authority().map(|a| a.as_str())
            && seen.uri.path_and_query().map(|p| p.as_str()) == orig_uri.path_and_query().map(|p| p.as_str()),
        "C12/uri",
        "inner saw URI {:?}, request had {:?}",
        seen.uri.to_string(),
        orig_uri.to_string()
    );
    ensure!(seen.body_id == c.body_id, "C12/body", "inner saw body tag {}, request had {}", seen.body_id, c.body_id);
    let mut want = orig.clone();
    let mut want_ext = orig_ext.clone();
    for op in &c.ops {
        model_apply(op, &mut want, &mut want_ext);
    }
    if let Err((k, d)) = compare_headers(&seen.headers, &want) {
        bail!(format!("C12/{k}"), "headers at the wrapped service differ from the operations applied to the original headers: {d}");
    }
    ensure!(seen.exts == want_ext, "C12/extensions", "extensions at the wrapped service {:?} != expected {:?}", seen.exts, want_ext);
    // (the number of extensions is not compared: tonic may attach extensions of its own)
    let _ = seen.ext_len;

    // ---- the response / error of the wrapped service comes back as it is
    match (out, c.resp.err) {
        (Err(e), true) => ensure!(e == InnerErr(c.body_id), "C12/inner-error-passthrough", "error {e:?} != the wrapped service's error"),
        (Err(e), false) => bail!("C12/inner-error-passthrough", "unexpected error {e:?}"),
        (Ok(_), true) => bail!("C12/inner-error-passthrough", "the wrapped service failed but a response came back"),
        (Ok(resp), false) => {
            let want = build_response(&c.resp, c.body_id).unwrap();
            ensure!(resp.status() == want.status() && resp.version() == want.version(), "C12/response-passthrough", "status/version {} {:?} != {} {:?}", resp.status(), resp.version(), want.status(), want.version());
            ensure!(header_list(resp.headers()) == header_list(want.headers()), "C12/response-passthrough", "response headers {:?} != {:?}", resp.headers(), want.headers());
            ensure!(resp.extensions().get::<RespExt>() == Some(&RespExt(c.body_id)), "C12/response-passthrough", "response extension lost");
            let mut want_frames = vec![];
            for i in 0..c.resp.data_frames {
                want_frames.push(Fr::Data(resp_data(c.body_id, i).to_vec()));
            }
            if c.resp.trailers {
                want_frames.push(Fr::Trailers(header_list(&resp_trailers(c.body_id))));
            }
            match drain(resp.into_body()) {
                Ok(frames) => ensure!(frames == want_frames, "C12/response-body-passthrough", "response body frames {frames:?} != {want_frames:?}"),
                Err(()) => bail!("C12/response-body-passthrough", "response body does not end"),
            }
        }
    }
    o.label("accept");
    o.label_if(c.resp.err, "inner_error");
    o.label_if(c.resp.pend > 0, "inner_future_pending");
    Ok(())
}

pub fn run(c: &Case, o: &mut Outcome) -> Result<(), Failure> {
    // ---- build the request
    let uri: http::Uri = match c.uri.parse() {
        Ok(u) => u,
        Err(e) => bail!("C12/harness-bad-uri", "generator produced an unparsable URI {:?}: {e}", c.uri),
    };
    let method = http::Method::from_bytes(METHODS[c.method as usize % METHODS.len()].as_bytes()).expect("method");
    let version = VERSIONS[c.version as usize % VERSIONS.len()];
    let mut req = http::Request::new(ReqBody { id: c.body_id });
    *req.method_mut() = method;
    *req.version_mut() = version;
    *req.uri_mut() = uri.clone();
    for h in &c.headers {
        let (Ok(n), Ok(v)) = (HeaderName::from_bytes(h.name.as_bytes()), HeaderValue::from_bytes(&h.bytes())) else {
            bail!("C12/harness-bad-header", "generator produced an invalid header {:?}", h);
        };
        req.headers_mut().append(n, v);
    }
    if let Some(a) = c.ext_a {
        req.extensions_mut().insert(ExtA(a));
    }
    if let Some(b) = &c.ext_b {
        req.extensions_mut().insert(ExtB(b.clone()));
    }
    if c.ext_c {
        req.extensions_mut().insert(ExtC);
    }

    // ---- classes
    let names = md::multimap(&c.headers);
    let has_reserved = c.headers.iter().any(|h| h.is_reserved());
    let has_repeated = names.iter().any(|x| x.1.len() > 1);
    let has_bin = c.headers.iter().any(|h| h.is_bin());
    let has_opaque = c.headers.iter().any(|h| h.bytes().iter().any(|b| *b >= 0x80));
    o.label_if(has_reserved, "hdr_reserved");
    o.label_if(has_repeated, "hdr_repeated");
    o.label_if(has_bin, "hdr_bin");
    o.label_if(has_opaque, "hdr_opaque_bytes");
    o.label_if(c.headers.iter().any(|h| h.name == "grpc-timeout"), "hdr_grpc_timeout");
    o.label_if(c.headers.is_empty(), "hdr_none");
    o.label_if(c.ext_a.is_some() || c.ext_b.is_some() || c.ext_c, "ext_present");
    o.label_if(c.ops.is_empty(), "op_identity");
    for op in &c.ops {
        let (l, name): (&'static str, Option<&str>) = match op {
            Op::Insert(e) => ("op_insert", Some(&e.name)),
            Op::Append(e) => ("op_append", Some(&e.name)),
            Op::Remove(n) => ("op_remove", Some(n)),
            Op::Replace(_) => ("op_replace_map", None),
            Op::Fresh => ("op_fresh_request", None),
            Op::ExtAdd(_) => ("op_ext_add", None),
            Op::ExtSetA(_) => ("op_ext_override", None),
            Op::ExtRemove(_) => ("op_ext_remove", None),
        };
        o.label(l);
        if let Some(n) = name {
            o.label_if(names.iter().any(|x| x.0 == n), "op_on_existing_key");
            o.label_if(wire::RESERVED_METADATA.contains(&n), "op_on_reserved_key");
            o.label_if(n.ends_with("-bin"), "op_on_bin_key");
        }
    }
    o.label_if(c.ops.len() >= 2, "ops>=2");
    o.label(match c.form {
        0 => "form_closure",
        1 => "form_layer",
        _ => "form_trait_impl",
    });
    o.label(match c.method {
        0 => "method_GET",
        1 => "method_POST",
        2 => "method_OPTIONS",
        3 => "method_PUT",
        _ => "method_extension",
    });
    o.label(match c.version {
        0 => "http_0.9",
        1 => "http_1.0",
        2 => "http_1.1",
        3 => "http_2",
        _ => "http_3",
    });
    o.label_if(uri.scheme().is_some(), "uri_absolute");
    o.label_if(uri.query().is_some(), "uri_query");
    o.label_if(uri.path_and_query().is_none() || uri.path() == "*", "uri_authority_or_asterisk");
    o.nontrivial = c.reject.is_some() || ((has_reserved || has_repeated || has_bin) && !c.ops.is_empty());

    // ---- wrap and call
    let rec = Arc::new(Mutex::new(Rec::default()));
    let inner = Recorder { rec: rec.clone(), resp: c.resp.clone() };
    let mut script = Script { rec: rec.clone(), ops: c.ops.clone(), reject: c.reject.clone() };
    let budget = 8 + c.resp.pend as usize;
    macro_rules! drive {
        ($svc:expr) => {{
            let mut svc = $svc;
            match poll_budget(4, |cx| svc.poll_ready(cx)) {
                Ok(Ok(())) => {}
                other => bail!("C12/poll-ready", "poll_ready of the intercepted service: {:?}", other.map(|r| r.map_err(|e| format!("{e:?}")))),
            }
            let fut = svc.call(req);
            match block_on_budget(budget, fut) {
                Ok(out) => out,
                Err(_) => bail!("C12/future-stuck", "response future not ready within {budget} polls"),
            }
        }};
    }
    match c.form {
        0 => {
            let out = drive!(InterceptedService::new(inner, move |r: tonic::Request<()>| script.play(r)));
            judge(c, &rec, &uri, out, o)
        }
        1 => {
            let layer = InterceptorLayer::new(move |r: tonic::Request<()>| script.play(r));
            let out = drive!(layer.layer(inner));
            judge(c, &rec, &uri, out, o)
        }
        _ => {
            let out = drive!(InterceptedService::new(inner, script));
            judge(c, &rec, &uri, out, o)
        }
    }
}

pub struct C12;
impl Prop for C12 {
    const ID: &'static str = "C12";
    type Case = Case;
    fn strategy() -> BoxedStrategy<Case> {
        strategy()
    }
    fn run(c: &Case, o: &mut Outcome) -> Result<(), Failure> {
        run(c, o)
    }
    fn rule() -> &'static str {
        "proptest: http::Request with method in {GET,POST,OPTIONS,PUT,3 extension methods (inline and allocated)} x version in {0.9,1.0,1.1,2,3} x URI (13 pooled forms incl. absolute, authority-form, '*', percent-escapes, empty query; built scheme/authority/path/query) x 0-18 headers in 0-6 name groups (1-3 interleaved values per name; metadata name pool, the six gRPC-reserved names, grpc-timeout/grpc-encoding/authorization/host; values ASCII, opaque >=0x80, empty, base64 and non-base64 under -bin names) x typed extensions (three marker types, each present or not) x uniquely tagged non-Clone body, through InterceptedService::new(closure) / InterceptorLayer / a struct implementing Interceptor around a recording inner service. The interceptor plays 0-4 operations on the tonic::Request<()> (insert, append, remove [biased to existing, reserved and -bin keys], replace the whole map, return a fresh Request, add / override / remove an extension) and then accepts or rejects with Status(code 0..=16, Unicode message, details 0-200 bytes, metadata). Oracle: reference ordered multimap with the same operations applied. Accept: inner called once with the original method/version/URI/body tag, the modelled headers (same key set, per key the same ordered values; -bin values added by the interceptor judged by an independent base64 decoder) and the modelled extensions; the inner response (status, headers, extension, body frames, trailers) or error comes back unchanged. Reject: inner never called; HTTP 200, one content-type: application/grpc, grpc-status / grpc-message / grpc-status-details-bin judged by independent decoders, every non-reserved status metadata entry present, Status::from_header_map reads the same status back, body is_end_stream() and yields no frame. Non-trivial: rejected, or the request has a reserved / repeated / -bin header and the interceptor performs >=1 operation; distinct = distinct serialised case. Also: rejection statuses whose metadata has an entry named grpc-status-details-bin next to non-empty details."
    }
    fn assumptions() -> Vec<String> {
        vec![
            "header order across different names is not compared (HTTP gives it no meaning); per name the value order is".into(),
            "reserved names in the rejecting status' metadata are not expected on the wire (C04 covers Status -> headers)".into(),
            "custom metadata names never start with grpc- except the reserved names and grpc-timeout/grpc-encoding/grpc-accept-encoding used on purpose".into(),
        ]
    }
    fn cases(t: Tier) -> u64 {
        match t {
            Tier::Quick => 200_000,
            Tier::Thorough => 6_000_000,
        }
    }
    fn fixed_cases(_t: Tier) -> Vec<Case> {
        // every method x version x pooled URI x form, with one reserved header and an identity / insert /
        // reject interceptor
        let mut v = vec![];
        let hdr = |n: &str, val: &str| MdEntry { name: n.to_string(), val: hex(val.as_bytes()) };
        for m in 0..METHODS.len() as u8 {
            for ver in 0..VERSIONS.len() as u8 {
                for (ui, u) in URI_POOL.iter().enumerate() {
                    let k = (m as usize + ver as usize + ui) % 3;
                    let (ops, reject) = match k {
                        0 => (vec![], None),
                        1 => (vec![Op::Insert(hdr("x-added", "1"))], None),
                        _ => (vec![], Some(Reject { code: 7, message: "no".into(), details: Blob::Hex(String::new()), md: vec![], shadow: false })),
                    };
                    v.push(Case {
                        form: ((m as usize + ui) % 3) as u8,
                        method: m,
                        version: ver,
                        uri: u.to_string(),
                        headers: vec![hdr("te", "trailers"), hdr("content-type", "application/grpc"), hdr("user-agent", "ua/1"), hdr("x-a", "v")],
                        ext_a: Some(1),
                        ext_b: None,
                        ext_c: true,
                        body_id: 0x1000 + ui as u64,
                        ops,
                        reject,
                        resp: RespSpec { err: false, status: 200, pend: 0, data_frames: 1, trailers: true },
                    });
                }
            }
        }
        v
    }
    fn fixed_is_exhaustive() -> Option<&'static str> {
        Some("7 methods x 5 versions x 13 pooled URI forms (455 cases) are enumerated completely, each with reserved request headers and one of {identity, insert, reject}")
    }
}
