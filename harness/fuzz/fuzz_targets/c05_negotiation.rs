#![no_main]
//! libFuzzer target for C05: bytes -> structured case (arbitrary::Unstructured) -> the same oracle as the
//! proptest driver. An unknown violation aborts (= libFuzzer crash); known findings are tolerated by signature.
use libfuzzer_sys::fuzz_target;
use std::sync::OnceLock;
use vh::infra::runner::{fuzz_one, install_panic_hook, load_known, KnownEntry};

static KNOWN: OnceLock<Vec<KnownEntry>> = OnceLock::new();

fuzz_target!(|data: &[u8]| {
    let known = KNOWN.get_or_init(|| {
        install_panic_hook();
        load_known("C05")
    });
    fuzz_one::<vh::props::c05::C05>(data, known);
});
