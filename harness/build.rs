// Generates the scripted test services with the *working tree's* tonic-build (manual builder, no protoc).
use std::fmt::Write as _;
use std::path::PathBuf;
use tonic_build::manual::{Builder, Method, Service};

fn four(pkg: &str, name: &str, ty: &str, codec: &str) -> Service {
    let m = |n: &str, route: &str, cs: bool, ss: bool| {
        let mut b = Method::builder()
            .name(n)
            .route_name(route)
            .input_type(ty)
            .output_type(ty)
            .codec_path(codec);
        if cs {
            b = b.client_streaming();
        }
        if ss {
            b = b.server_streaming();
        }
        b.build()
    };
    Service::builder()
        .package(pkg)
        .name(name)
        .method(m("unary", "Unary", false, false))
        .method(m("client_stream", "ClientStream", true, false))
        .method(m("server_stream", "ServerStream", false, true))
        .method(m("bidi", "Bidi", true, true))
        .build()
}

/// (package, service) pool for C10: adversarial names (prefixes of one another, case variants,
/// package that looks like another service's full name).
const POOL: &[(&str, &str)] = &[
    ("", "S"),
    ("", "s"),
    ("", "Sv"),
    ("a", "S"),
    ("a", "Sv"),
    ("a", "s"),
    ("A", "S"),
    ("a.S", "Tt"),
    ("a.b", "S"),
    ("ab", "S"),
];
const POOL_METHODS: &[(&str, &str)] = &[("m_upper", "M"), ("m_lower", "m"), ("mm", "Mm"), ("m2", "M2")];

fn main() {
    println!("cargo:rerun-if-changed=build.rs");
    let out = PathBuf::from(std::env::var("OUT_DIR").unwrap());
    Builder::new().compile(&[
        four("vt", "Test", "crate::svc::Msg", "tonic::codec::ProstCodec"),
        four("vt", "Raw", "crate::svc::RawMsg", "crate::svc::RawCodec"),
    ]);
    let mut idx = String::new();
    for (i, (pkg, name)) in POOL.iter().enumerate() {
        let dir = out.join(format!("pool{i}"));
        std::fs::create_dir_all(&dir).unwrap();
        let mut sb = Service::builder().package(pkg).name(name);
        for (rust, route) in POOL_METHODS {
            sb = sb.method(
                Method::builder()
                    .name(rust)
                    .route_name(route)
                    .input_type("crate::svc::RawMsg")
                    .output_type("crate::svc::RawMsg")
                    .codec_path("crate::svc::RawCodec")
                    .build(),
            );
        }
        Builder::new().out_dir(&dir).compile(&[sb.build()]);
        writeln!(
            idx,
            "pub mod pool{i} {{ include!(concat!(env!(\"OUT_DIR\"), \"/pool{i}/{pkg}.{name}.rs\")); }}"
        )
        .unwrap();
    }
    writeln!(idx, "pub const POOL: &[(&str, &str)] = &{:?};", POOL).unwrap();
    writeln!(idx, "pub const POOL_METHODS: &[&str] = &{:?};", POOL_METHODS.iter().map(|m| m.1).collect::<Vec<_>>()).unwrap();
    std::fs::write(out.join("pool_index.rs"), idx).unwrap();
}
