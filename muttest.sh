#!/bin/bash
# muttest.sh <file-in-repo> <old-text> <new-text> <ids...> : apply a textual mutation to /repo, run quick checks, revert
F="$1"; OLD="$2"; NEW="$3"; shift 3
cd /repo || exit 2
if ! git diff --quiet; then echo "repo dirty"; exit 2; fi
python3 - "$F" "$OLD" "$NEW" <<'PY' || { echo "pattern not found"; exit 2; }
import sys
f,old,new=sys.argv[1:4]
s=open(f).read()
if old not in s: sys.exit(1)
open(f,'w').write(s.replace(old,new,1))
PY
for id in "$@"; do
  out=$(cd /verif && ./check $id quick 2>&1 | grep -E "^(signature|VIOLATION|OK|INCONCLUSIVE|error)" | head -3 | tr '\n' ' ')
  echo "$id: $out"
done
git checkout -- . 
