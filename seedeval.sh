#!/bin/bash
# seedeval.sh <sid> <n> [ids...]: confirm an independent seeded change (/tmp/<sid>/out/<n>) in a scratch
# worktree: it applies; with the demonstration added the suite has no new failure without the change and at
# least one new failure with it; without the demonstration the existing suite is unchanged by the change.
# Then store it under /verif/seeded/<sid>-<n>/, apply it to /repo, run the checks, and revert.
set -u
SID="$1"; N="$2"; shift 2
SRC="/tmp/$SID/out/$N"; [ -f "$SRC/patch.diff" ] || SRC="/verif/seeded/$SID-$N"
[ -f "$SRC/patch.diff" ] || { echo "no patch for $SID-$N"; exit 2; }
PID=$(python3 -c "import json;print(json.load(open('$SRC/meta.json'))['property'])" 2>/dev/null || echo "C${SID#s}")
IDS="${@:-$PID}"
W=/tmp/ev_$SID$N; T=${EVT:-/tmp/ev_target}; RUNLOG=/tmp/ev_run.$SID$N.log
D=/verif/seeded/$SID-$N; mkdir -p "$D"
[ "$SRC" != "$D" ] && { cp "$SRC/patch.diff" "$SRC/meta.json" "$D/" 2>/dev/null; cp "$SRC/demo.diff" "$D/" 2>/dev/null; }
rm -rf "$W"; git -C /repo worktree prune; git -C /repo worktree add --detach "$W" HEAD >/dev/null 2>&1 || { echo "worktree failed"; exit 2; }
cd "$W"
export CARGO_TARGET_DIR=$T CARGO_NET_OFFLINE=true
DEMO_CMD=$(python3 -c "import json;print(json.load(open('$D/meta.json')).get('demo_command',''))" 2>/dev/null)
SPECIAL=""
case "$DEMO_CMD" in *--features*) SPECIAL=$(echo "$DEMO_CMD" | grep -oE "cargo (\+nightly )?(test|nextest run)[^&;]*--features[^&;]*" | head -1 | sed -E 's/[[:space:]]+[(#].*$//') ;; esac
suite() { # prints sorted failing test names (or exit code for a special command)
  if [ -n "$SPECIAL" ]; then case "$SPECIAL" in *--offline*) ;; *) SPECIAL="$SPECIAL --offline";; esac; (eval "$SPECIAL" >$RUNLOG 2>&1; echo "exit=$?");
  else cargo nextest run --workspace --no-fail-fast --offline >$RUNLOG 2>&1; grep -E "^\s+(FAIL|SIGABRT|SIGSEGV|TIMEOUT|ABORT|LEAK) \[" $RUNLOG | awk '{print $NF}' | sort -u | tr '\n' ','; grep -qE "error: could not compile|error\[E" $RUNLOG && echo "COMPILE-ERROR"; fi; }
RES="applies=no"
if git apply --check "$D/patch.diff" 2>/dev/null; then
  RES="applies=yes"
  if [ -f "$D/demo.diff" ] && git apply "$D/demo.diff" 2>/dev/null; then
    A=$(suite); git apply "$D/patch.diff"; B=$(suite)
    RES="$RES demo_without=[$A] demo_with=[$B]"
    git apply -R "$D/demo.diff" 2>/dev/null
    # remove files the demo created
    git status --porcelain | grep '^??' | awk '{print $2}' | xargs -r rm -rf
  else
    git apply "$D/patch.diff"; RES="$RES demo=not-applicable"
  fi
  SPECIAL_SAVE="$SPECIAL"; SPECIAL=""; C=$(suite); SPECIAL="$SPECIAL_SAVE"
  RES="$RES suite_with_patch_only=[$C]"
fi
cd /verif; git -C /repo worktree remove --force "$W" >/dev/null 2>&1; rm -f "$RUNLOG"
echo "$SID-$N confirm: $RES" | tee "$D/confirm.txt"
# run the checks against it
unset CARGO_TARGET_DIR
if [ "${ISOLATED:-0}" = "1" ]; then
  # isolated mode: a private copy of the harness pointing at a private worktree of /repo (used while a
  # long run is reading /repo); otherwise the change is applied to /repo itself and undone afterwards
  E=${EVH:-/tmp/evh}
  if [ ! -d $E/repo ]; then mkdir -p $E; git -C /repo worktree add --detach $E/repo HEAD >/dev/null 2>&1; fi
  git -C $E/repo checkout -q --detach "$(git -C /repo rev-parse HEAD)" 2>/dev/null; git -C $E/repo checkout -- . ; git -C $E/repo status --porcelain | grep '^??' | awk '{print $2}' | (cd $E/repo && xargs -r rm -rf)
  rsync -a --delete --exclude target --exclude fuzz/target /verif/harness/ $E/harness/
  sed -i "s|/repo/|$E/repo/|g" $E/harness/Cargo.toml
  mkdir -p $E/fixtures; rsync -a /verif/fixtures/ $E/fixtures/; cp /verif/known_findings.txt $E/; rsync -a --delete /verif/regressions/ $E/regressions/
  git -C $E/repo apply "$D/patch.diff"
  for id in $IDS; do
    BIN=vcheck; FEAT=""; [ "$id" = "C15" ] && { BIN=vcheck_tls; FEAT="--features tls"; }
    (cd $E/harness && cargo build --release --offline $FEAT --bin $BIN >$E/build.log 2>&1) || { echo "$SID-$N check $id: harness does not build" | tee -a "$D/confirm.txt"; continue; }
    out=$(VERIF_ROOT=$E $E/target/release/$BIN run $id quick 2>&1 | grep -E "^(signature|VIOLATION|OK|INCONCLUSIVE|error)" | head -3 | tr '\n' ' ' | sed "s|$E|/verif|g")
    echo "$SID-$N check $id: $out" | tee -a "$D/confirm.txt"
  done
  git -C $E/repo checkout -- .
  exit 0
fi
if git -C /repo diff --quiet && git -C /repo apply --check "$D/patch.diff" 2>/dev/null; then
  git -C /repo apply "$D/patch.diff"
  for id in $IDS; do
    out=$(./check $id quick 2>&1 | grep -E "^(signature|VIOLATION|OK|INCONCLUSIVE|error)" | head -3 | tr '\n' ' ')
    echo "$SID-$N check $id: $out" | tee -a "$D/confirm.txt"
  done
  git -C /repo checkout -- . ; git -C /repo status --porcelain | grep '^??' | awk '{print $2}' | (cd /repo && xargs -r rm -rf)
else
  echo "$SID-$N: /repo dirty or patch does not apply" | tee -a "$D/confirm.txt"
fi
git -C /verif checkout -- evidence 2>/dev/null
