#!/bin/bash
# seedeval.sh <sid> <n> [ids...]: confirm an independent seeded change (/tmp/<sid>/out/<n>) in a scratch
# worktree (applies, builds, demo passes without / fails with it, baseline suite unchanged), store it under
# /verif/seeded/<sid>-<n>/, then apply it to /repo, run the checks, and revert.
set -u
SID="$1"; N="$2"; shift 2
SRC="/tmp/$SID/out/$N"
[ -f "$SRC/patch.diff" ] || { echo "no patch at $SRC"; exit 2; }
PID=$(python3 -c "import json;print(json.load(open('$SRC/meta.json'))['property'])" 2>/dev/null || echo "C${SID#s}")
IDS="${@:-$PID}"
W=/tmp/ev_$SID$N; T=/tmp/ev_target
rm -rf "$W"; git -C /repo worktree add --detach "$W" HEAD >/dev/null 2>&1 || { echo "worktree failed"; exit 2; }
cd "$W"
DEMO_CMD=$(python3 -c "import json;print(json.load(open('$SRC/meta.json')).get('demo_command',''))" | sed "s|/tmp/$SID/repo|$W|g; s|/tmp/$SID/target|$T|g")
RES="applies=no"
if git apply --check "$SRC/patch.diff" 2>/dev/null; then
  RES="applies=yes"
  [ -f "$SRC/demo.diff" ] && git apply "$SRC/demo.diff" 2>/dev/null
  export CARGO_TARGET_DIR=$T CARGO_NET_OFFLINE=true
  if [ -n "$DEMO_CMD" ]; then
    (eval "$DEMO_CMD") >/tmp/ev_demo_without.log 2>&1; A=$?
    git apply "$SRC/patch.diff"
    (eval "$DEMO_CMD") >/tmp/ev_demo_with.log 2>&1; B=$?
    RES="$RES demo_without=$A demo_with=$B"
  else
    git apply "$SRC/patch.diff"; RES="$RES demo=none"
  fi
  # baseline suite with the change (demo removed so that only existing tests count)
  [ -f "$SRC/demo.diff" ] && git apply -R "$SRC/demo.diff" 2>/dev/null
  cargo nextest run --workspace --no-fail-fast --offline >/tmp/ev_suite.log 2>&1
  SUM=$(grep -E "Summary" /tmp/ev_suite.log | tail -1 | sed 's/^ *//')
  FAILS=$(grep -E "^\s+FAIL \[" /tmp/ev_suite.log | awk '{print $NF}' | sort -u | tr '\n' ',')
  RES="$RES suite=[$SUM] fails=[$FAILS]"
fi
cd /verif; git -C /repo worktree remove --force "$W" >/dev/null 2>&1
D=/verif/seeded/$SID-$N; mkdir -p "$D"; cp "$SRC/patch.diff" "$SRC/meta.json" "$D/" 2>/dev/null; cp "$SRC/demo.diff" "$D/" 2>/dev/null
echo "$SID-$N confirm: $RES" | tee "$D/confirm.txt"
# run the checks against it
if git -C /repo diff --quiet && git -C /repo apply --check "$SRC/patch.diff" 2>/dev/null; then
  git -C /repo apply "$SRC/patch.diff"
  for id in $IDS; do
    out=$(./check $id quick 2>&1 | grep -E "^(signature|VIOLATION|OK|INCONCLUSIVE|error)" | head -3 | tr '\n' ' ')
    echo "$SID-$N check $id: $out" | tee -a "$D/confirm.txt"
  done
  git -C /repo checkout -- . ; git -C /repo clean -fdq -- . 2>/dev/null
else
  echo "$SID-$N: /repo dirty or patch does not apply" | tee -a "$D/confirm.txt"
fi
git -C /verif checkout -- evidence 2>/dev/null
