#!/usr/bin/env python3
"""Regenerates MANIFEST.json from the table below (kept in one place so it stays valid)."""
import json
CHECKS = {
 # id: (technique, level text, level note, design ref, has_fuzz)
 "C01": ("property-based testing (proptest round trip + metamorphic batching relation) and coverage-guided fuzzing (libFuzzer, same oracle)",
         "Randomised, class-measured search over message sequences x codecs x encodings x buffer settings x chunkings x readiness patterns; every case runs tonic's real EncodeBody and Streaming under a harness-owned poll schedule and is judged by a round trip plus the batching-independence relation. No counterexample among the measured cases; not a proof.",
         "Trusts flate2/zstd determinism, the harness poll driver and proptest's generators; bounds: <=12 messages, <=70 KiB each, <=64 chunks.", "4/C01"),
 "C04": ("property-based testing (proptest round trip + totality over arbitrary header maps), exhaustive enumeration of the HTTP-status and h2-reason tables, coverage-guided fuzzing of from_header_map",
         "Randomised round trips of Status through add_header/into_http/from_header_map judged by independent percent/base64 decoders and a reference multimap; arbitrary malformed header maps (no panic, UNKNOWN / non-OK degradation); HTTP 100..=599 and h2 reasons 0..=13 enumerated completely against tables transcribed from the gRPC documents.",
         "Trusts the transcription of the two gRPC mapping tables and the http crate's HeaderValue validation; gray-zone base64 (odd padding, non-zero trailing bits) only required not to panic / not to read as OK.", "4/C04"),
 "C07": ("property-based testing (mutation-based generation against an independent reference parser; history invariant over repeated polls) and coverage-guided fuzzing",
         "Mutated valid streams and raw bytes under arbitrary chunking, trailers and injected body errors are fed to tonic's Streaming, which is then polled 6 more times; an independent parser supplies the expected message prefix; invariants: no panic, every poll completes, one error at most, nothing after the terminal event, definite malformations must error.",
         "Content of compressed payloads that a mutation touched is not compared (decompressors may differ on garbage); bounds: <=6 frames, default 4 MiB limit, <=24 chunks.", "4/C07"),
 "C06": ("property-based testing (boundary-biased proptest + enumerated limit boundaries) with a counting global allocator as an extra observer",
         "Exact-limit model (accepted iff declared length <= L) checked on tonic's Streaming with declared-but-absent payloads and a Pending body, allocation requests observed by a counting allocator; EncodeBody with an oversized message at every position after batched/flushed earlier messages (prefix-preservation oracle via the independent frame parser), the 2^32+1-byte case, and limit plumbing through generated client and server at L-1, L, L+1.",
         "Counting allocator sees only allocations made on the polling thread; 4 GiB case relies on lazily committed pages; limits apply to wire payload length.", "4/C06"),
 "C12": ("property-based testing (proptest; reference model = interceptor operations applied to an ordered header multimap and an extension model) plus an enumerated method x version x URI table",
         "Random requests (7 methods, 5 HTTP versions, origin/absolute/authority URIs, repeated/reserved/-bin/opaque headers, typed extensions, non-Clone body) through InterceptedService in its three forms with scripted interceptor operations or a rejecting status; the recording inner service and the returned response are compared with the model; rejects are read back with independent percent/base64 decoders.",
         "Order across different header names is not compared; number of extensions not compared.", "4/C12"),
 "C02": ("property-based testing over complete client<->server scenarios (reference model = handler/caller script), real hyper/h2 over an in-memory pipe with generated fragmentation, single-threaded runtime with paused virtual clock",
         "Generated services (working tree's tonic-build) x four call shapes x handler scripts (messages, delays, OK / error status returned by the handler or as a stream item, metadata) x caller requests x pipe read-size/Pending schedules x scheduler seed; the client-visible outcome and the handler-visible request are compared with the script; a virtual-time watchdog decides completion.",
         "One connection, <=6 messages per direction, <=48 KiB per message; schedules inside hyper/h2 are explored through fragmentation, injected Pendings and the seeded select! order, not enumerated.", "4/C02"),
 "C10": ("property-based testing (mutation-based path generation against an exact-string routing model; metamorphic relation over registration order) plus enumerated singleton/pair configurations",
         "Subsets and orders of a pool of 10 generated services with adversarial names (prefixes, case variants, package that looks like a service name), five NamedService wrapper forms, three registration APIs; paths = exact, one/two-edit mutants, case flips, 44 segment shapes, percent-encodings, query suffixes; oracle: dispatched iff the path is exactly /Service/Method of a registered service, else HTTP 200 + grpc-status 12 and no handler ran; same verdict for two registration orders.",
         "Driven in-process through Routes as a tower service (the network path is covered by C02); paths http::Uri cannot represent are skipped and counted.", "4/C10"),
 "C11": ("property-based testing over generated programs (random .proto grammar -> protox -> tonic-build in memory; syn visitor extraction vs descriptor) plus an exhaustive regenerate-and-byte-compare of the committed generated files",
         "Random service definitions (packages, identifier shapes incl. Rust keywords, 1-6 methods over the four streaming kinds, nested/imported message types, builder options, manual builder with route names) are compiled by the working tree's generator; client path literals, shapes and types are extracted with syn and compared with the server's match arms/shapes/types and with a table computed from the descriptor; the bootstrap generator is re-run on a scratch copy and its 8 output files byte-compared with the committed ones.",
         "Generated code is parsed, not compiled (the harness's own build.rs compiles four-shape services); regeneration uses a scratch rsync copy under /tmp that is deleted afterwards.", "4/C11"),
 "C16": ("property-based testing (independent grpc-web decoder as oracle) plus the enumerated method x version x content-type table; coverage-guided fuzzing of the base64 request path in the thorough tier",
         "GrpcWebLayer over a scripted inner service: response frames cut at arbitrary positions then trailers (repeated names, colons, spaces, -bin, obs-text) or trailers-only, binary and text modes; request bodies binary or one padded base64 run cut inside quanta; judged by the harness's own grpc-web / base64-quantum / trailer-block decoders; 405 / 400 / pass-through table enumerated completely.",
         "Text requests are one padded base64 run (what browsers send); non-grpc-web over HTTP/0.9 and HTTP/3 not judged.", "4/C16"),
 "C18": ("model-based property testing (stateful histories against a status/generation reference model) plus a multi-threaded stress family with invariant oracle",
         "Histories (<=30 ops) of set/clear/check/watch/next/drop over services {'', a, b} through the generated Health client in-process on a paused single-threaded runtime with quiescence after each op, judged against a generation model that allows coalescing; concurrent writers/watchers on a multi-threaded runtime judged by schedule-independent invariants.",
         "Stress-family failures may not replay bit-for-bit (true multi-core interleavings); verdicts there use only joins/barriers, never wall-clock.", "4/C18"),
 "C19": ("property-based testing over generated descriptor sets (independent descriptor walker as oracle; v1 vs v1alpha differential)",
         "Descriptor trees (1-4 files, packages, nesting depth 3, oneofs, nested enums, services, imports, duplicate/split/unregistered registration, encoded vs struct sets, service-name toggles) are registered and every declared name, file name, service list and name mutants are queried through the generated v1 and v1alpha clients in-process; answers are compared with the walker's name->file map and with each other.",
         "Enum values may resolve under either naming convention; leading-dot / empty / bare-package names only need an answer.", "4/C19"),
 "C20": ("property-based testing (round trip through the header encoding + own protobuf reader of the embedded google.rpc.Status) and coverage-guided fuzzing of the decode side",
         "All ten standard detail kinds as ErrorDetails sets and ordered Vec<ErrorDetail> lists with Unicode strings, repeated violations, boundary durations and metadata are attached, sent through add_header/from_header_map and recovered field by field; the embedded Status is decoded by the harness's own wire reader; mutated/garbage/foreign encodings must never panic and set/vec/getter views must agree.",
         "On a list with a repeated kind check_error_details may keep any one item; unknown type URLs and out-of-range durations only need to be total.", "4/C20"),
 "C03": ("property-based testing with an independent decoder as oracle (differential against harness-written framing / decompression / header rules), including raw h2 peers that share no code with tonic",
         "Every body tonic's EncodeBody produces (both roles, all encodings, source errors, encode failures; polled past the end) and every request/response tonic puts on an in-memory HTTP/2 connection (raw h2 server facing generated clients, raw h2 client facing generated servers) is parsed by the harness's own frame parser, magic-checked and independently decompressed, and checked against the header and trailers rules of the gRPC HTTP/2 protocol document.",
         "flate2 / zstd are trusted as independent decompressors (different API path than tonic's); h2 crate trusted as the HTTP/2 peer.", "4/C03"),
 "C13": ("property-based testing over shutdown histories (schedules): event- and time-placed signal relative to concurrent calls, invariants over the recorded history, virtual-time liveness watchdog",
         "serve_with_incoming_shutdown over in-memory pipes with 1-3 connections x 1-4 unary/streaming calls; the shutdown signal is placed at a virtual time or triggered by a handler event (entered / sent message j / completed); history invariants: entered handlers are never cancelled and their callers see the scripted outcome, nothing is accepted after the signal, the serve future resolves with client channels alive and only after every accepted connection closed.",
         "Schedules inside hyper/h2/tokio are explored through fragmentation, seeded select! order and event-placed signals, not enumerated; liveness is decided inside the closed virtual-time world.", "4/C13"),
 "C14": ("model-based property testing over fault histories (scripted connector; connection-state reference model) in virtual time",
         "Histories of connect-fail / connect-succeed / connect-hang / peer-kill faults interleaved with unary and streaming calls at quiescent points, lazy and eager channels, over in-memory pipes to a real tonic server; the per-call result, the number of connector invocations and virtual elapsed times are compared with a two-state connection model; virtual-time watchdog for 'every call resolves'.",
         "Faults are injected only at quiescent points between calls (the property's quantifier). One known finding (connect_timeout surfaces as UNKNOWN) is tolerated by signature.", "4/C14"),
 "C05": ("property-based testing against an independent negotiation model, plus the enumerated 16x16 (send-set, accept-set) matrix",
         "Generated server (builder methods / server::Grpc / apply_compression_config) and generated client over a mock transport with every ordered subset of {gzip,deflate,zstd} for send and accept, grpc-accept-encoding from a token grammar (unknown tokens, optional whitespace, case variants, non-ASCII, two lines), all grpc-encoding values, frame flags contradicting headers, really/wrongly compressed and garbage payloads; judged by the harness's own tokeniser/model and magic+decompress judges.",
         "The server is never required to compress (identity is always permitted); disable_compression judged for unary/client-streaming responses.", "4/C05"),
 "C09": ("property-based testing (arithmetic oracle in u128 nanoseconds, independent grammar parser), structure-exhaustive enumeration of header shapes, virtual-time enforcement scenarios over the in-memory pipe; coverage-guided fuzzing of the parser in the thorough tier",
         "(a) Request::set_timeout around every unit switch and at random: conformant value, never longer than requested, loses < 1 unit; (b) the real parser (verif-hooks) on 6 units x 1-8 digits x boundary/leading-zero/random values, named mutations, one-edit mutants and arbitrary bytes vs the grammar; (c) caller timeout (set_timeout / raw header / Endpoint::timeout) x Server::timeout x handler latency on a grid around the shortest deadline in virtual time: CANCELLED 'Timeout expired' at T or the intact result at l.",
         "Times compared with +-2 ms; l = T ties not generated; durations above 99999999 hours only labelled (set_timeout panics there by design).", "4/C09"),
 "C15": ("exhaustive enumeration of the finite TLS configuration matrix under generated transport schedules (property-based testing over schedules), real rustls handshakes over the in-memory pipe, independent trust model as oracle",
         "102 cells (client roots x domain source x server ALPN x assume_http2 x server certificate; https without TLS config; client identity x server client-auth for tonic and raw rustls clients) each under two fixed and further random pipe schedules; the call must succeed iff chain, name, protocol and client-auth conditions hold; otherwise no request reaches a handler/peer and the client never writes plaintext; peer_certs exposed iff verified.",
         "Fixture PKI (EC, valid 2020-2126) generated with the image's openssl and committed; built as a second binary with tonic/tls-ring so the other checks keep the baseline feature set.", "4/C15"),
 "C08": ("model-based property testing (API histories against a reference ordered multimap) plus wire scenarios through generated client/server over a mock transport",
         "Histories (<=25 ops) of insert/append/remove/entry operations with typed, &str and String keys in lower/upper/mixed case against a HeaderMap-semantics model, all read accessors and iterators compared after every step (kind separation, base64 padding indifference, hash/equality); sending paths (generated client into a recording transport, generated server responses/trailers/statuses) judged for presence, order, base64 decodability and reserved-name forgery; receiving paths with padded and unpadded base64 read back through Request/Response/Status/Streaming metadata.",
         "Order between different names is not compared; wire padding is labelled only; a name present in both headers and trailers of one unary response is observed but not judged (outside what a tonic handler can attach).", "4/C08"),
 "C17": ("property-based testing (independent grpc-web encoder + reference parse as oracle), every-offset truncation enumeration, coverage-guided fuzzing in the thorough tier",
         "Bodies from the harness's own grpc-web encoder (0-5 message frames + trailers frame with colons, spaces, repeated/mixed-case names, -bin values) under stratified chunkings (inside frame headers, inside the trailers frame, message+trailers in one chunk, byte at a time, empty chunks, Pendings), truncated at every offset or mutated; judged on the body GrpcWebClientService returns and on the caller-visible result through generated clients: exact DATA, complete ordered trailers, errors (never a clean end, hang or busy loop) for cut-off or malformed bodies.",
         "The client layer decodes binary mode only (text-mode responses are not generated); bytes after a complete trailers frame, flag 0x81 and questionable trailer blocks are only required to be total.", "4/C17"),
}
NOT_YET = {}
def main():
    props=[json.loads(l) for l in open('/verif/properties.jsonl')]
    checks=[]
    na=[]
    for p in props:
        i=p['id']
        if i in CHECKS:
            t,lt,ln,dr=CHECKS[i]
            checks.append({"property_id":i,"quick_cmd":f"./check {i} quick","thorough_cmd":f"./check {i} thorough",
              "evidence_file":f"/verif/evidence/{i}.json","replay_cmd_template":f"./check {i} replay {{path}}",
              "engine":"vh","level_claimed":{"category":"exploration","text":lt,"design_ref":f"DESIGN.md section {dr}"},
              "level_note":ln,"technique":t})
        else:
            na.append({"property_id":i,"reason":NOT_YET.get(i,"check not built yet in this session (design in DESIGN.md section 4); will be claimed once its generator and oracle exist")})
    m={"version":1,
       "setup_cmd":"cd /verif/harness && CARGO_NET_OFFLINE=true cargo build --release --offline --bin vcheck && CARGO_NET_OFFLINE=true cargo build --release --offline --features tls --bin vcheck_tls",
       "hooks":{"guard":"cargo feature `verif-hooks` of crate tonic (off by default)",
                "enable":"the harness crate depends on /repo/tonic with features [gzip, deflate, zstd, verif-hooks]; ./check rebuilds it from /repo's working tree on every invocation",
                "baseline_off_cmd":"cd /repo && cargo nextest run --workspace --no-fail-fast --offline || cargo test --workspace --no-fail-fast --offline",
                "source_commits":["cd526cb0"],"add_only":True},
       "engines":[{"name":"vh","path":"/verif/harness","serves_properties":sorted(CHECKS),
                   "kind_free_text":"Rust harness crate: proptest TestRunner driven from a binary (16 shards, fixed seeds, class histograms, shrinking to a JSON replay file), harness-owned poll/pipe/virtual-time schedules, independent wire oracles; cargo-fuzz/libFuzzer targets in /verif/fuzz reuse the same oracles in the thorough tier"}],
       "checks":checks,
       "notes":"Exit codes: 0 held, 1 VIOLATION, 2 inconclusive (build failure / watchdog / vacuous generator). Known findings: /verif/known_findings.txt.",
       "not_applicable":na}
    json.dump(m,open('/verif/MANIFEST.json','w'),indent=1)
main()
