#!/bin/bash
# runall.sh [quick|thorough] [ids...]: run every claimed check, print one line each
TIER="${1:-quick}"; shift
cd "$(cd "$(dirname "$0")" && pwd)"
IDS="$@"
[ -z "$IDS" ] && IDS=$(python3 -c "import json;print(' '.join(c['property_id'] for c in json.load(open('MANIFEST.json'))['checks']))")
for id in $IDS; do
  s=$(date +%s)
  out=$(./check $id $TIER 2>&1)
  rc=$?
  e=$(date +%s)
  echo "$id rc=$rc $((e-s))s $(echo "$out" | grep -E "^(VIOLATION|OK|INCONCLUSIVE|KNOWN-FINDING)" | head -3 | tr '\n' ' ')"
done
